"""C04 - ANOVA / NICV / SNR equal their definitions over value classes (E3: column packing).

All |A|^N trace columns x all |L|^N class-label columns in one update (complete per-(word,sample) input space for N
rows), for label alphabets / class declarations realising every situation the statement names, for both accumulation
kernels (forced through the scripted clock) and one-/two-batch feeding, against an exact value-keyed reference.
"""
PROPERTY = 'C04'
LEVEL = 'model_checking'
ENGINE = 'E3'
RULE = ('bounded-exhaustive: all |A|^N trace columns x all |L|^N label columns packed side by side, N=3..5 (quick) / ..6 (thorough), for class declarations {explicit exact, explicit with unused '
        'classes, explicit with negative class values on signed words (declared / partly undeclared, int8 edges), '
        'explicit with undeclared labels, automatic with first-batch maximum 8 / 63 / 255} x {ANOVA,NICV,SNR} x precisions x trace dtypes x kernel sequences {(1),(1,2),(1,1),(1,2,1)} '
        'forced via the scripted clock; a case = one (configuration, trace column, label column); non-trivial = the exact reference says the statistic is defined')
ASSUMPTIONS = ['numpy/numba are trusted', 'tolerance 2^-12 / 2^-36 relative to max(|ref|, smallest non-zero |ref| of the configuration)', 'N<=6 rows, 3-4 letter alphabets (small scope)',
               'automatic class sets are exercised with first-batch maxima 8, 63, 255 here; the thresholds themselves (0, 9, 64) belong to C12']
TRUSTED = ['mc/refs/stats.py partitioned_ref_matrix (int64 exact sufficient statistics; cross-checked against the Fraction definition at start-up)', 'LUT memo (mc/common.install_lut_memo)']
TECHNIQUE = 'bounded-exhaustive enumeration of the complete per-(word,sample) input space (column packing) on the real partitioned distinguishers under every forced kernel sequence, exact reference in lock-step'
LEVEL_TEXT = ('Every (trace column, label column) pair for N<=5 (quick) / 6 (thorough) rows is executed on the real ANOVA/NICV/SNR distinguishers for explicit and automatic class sets, unbalanced, '
              'singleton, single, empty and undeclared classes, both kernels and both precisions, and compared entry by entry (value and NaN pattern, never +-inf) with the definitions evaluated '
              'from exact integer class statistics.')
LEVEL_NOTE = 'Trusted: numpy, numba, exact reference, the memoised LUT factory. Kernel choice is owned through scared.distinguishers.partitioned._time (scripted clock), verified by a kernel recorder.'
DESIGN_REF = 'DESIGN.md section 3, C04'

WHICH = ('anova', 'nicv', 'snr')


def bound(tier):
    return {'N': [3, 4, 5] if tier == 'quick' else [3, 4, 5, 6]}


def _configs(tier):
    """(name, N, trace alphabet, label alphabet, partitions or None, kernel sequences)"""
    out = []
    ns = [3, 4, 5] if tier == 'quick' else [3, 4, 5, 6]
    for n in ns:
        la = 4 if n <= 5 else 3
        A = [0, 1, 2, 5][:la]
        seqs = [(1,), (1, 2), (1, 1)] + ([(1, 2, 1)] if n >= 4 else [])
        out.append(('explicit-exact', n, A, [0, 1, 2, 3][:la], [0, 1, 2, 3][:la], seqs))
        out.append(('explicit-unused', n, A, [0, 1, 3][:la], [0, 1, 2, 3, 4, 6], seqs[:2]))
        out.append(('explicit-undeclared', n, A, [0, 1, 2, 7][:la], [0, 1, 2], seqs[:3]))
        out.append(('explicit-unordered-gaps', n, A, [1, 4, 9, 300][:la], [300, 4, 1], seqs[:2]))
        out.append(('explicit-negative', n, A, [-3, -1, 0, 2][:la], [-3, -1, 0, 2][:la], seqs[:3]))            # signed intermediate words with declared negative class values
        out.append(('explicit-negative-undeclared', n, A, [-128, -2, 1, 127][:la] if la == 4 else [-128, -2, 127], [127, -128, 1], seqs[:2]))
        out.append(('auto-9', n, A, [0, 1, 2, 8][:la] if la == 4 else [0, 2, 8], None, seqs[:3]))
        if n <= 4 or tier == 'thorough' and n <= 4:
            out.append(('auto-64', n, A, [0, 1, 10, 63], None, [(1,), (1, 1)]))
            out.append(('auto-256', n, A, [0, 5, 200, 255], None, [(1,), (1, 1)]))
    return out


def _tdts(tier):
    return ['uint8', 'float32'] if tier == 'quick' else ['uint8', 'int16', 'int32', 'float32', 'float64']


def shards(tier, seed):
    # one shard per (statistic, precision, trace dtype): each worker JIT-compiles the two kernels for one signature only
    return [{'name': '%s-%s-%s' % (w, prec, tdt), 'which': w, 'prec': prec, 'tdt': tdt, 'cost': 10}
            for w in WHICH for prec in ('float32', 'float64') for tdt in _tdts(tier)]


def run_shard(shard, ctx):
    import numpy as np
    import scared
    from scared.distinguishers import partitioned as P
    from mc.common import Collector, all_columns, compare, first_index, TOL, install_lut_memo
    from mc.refs import stats
    from mc import env
    stats.selftest()
    install_lut_memo()
    clock = env.install_clock(P)
    rec = env.install_recorder(P.PartitionedDistinguisherMixin)
    tier, seed = ctx['tier'], ctx['seed']
    which, prec, tdt = shard['which'], shard['prec'], shard['tdt']
    tol = TOL[prec]
    col = Collector()
    D = {'anova': scared.ANOVADistinguisher, 'nicv': scared.NICVDistinguisher, 'snr': scared.SNRDistinguisher}
    seen = {'def': 0, 'undef': 0}
    kernels_seen = set()
    for name, n, A, L, parts, seqs in _configs(tier):
        X = all_columns(A, n); Y = all_columns(L, n)
        if parts is None:
            # automatic class set: the whole first batch decides; row 0 carries the maximum in every word (C02/C12 caveat)
            Y = Y[:, Y[0] == max(L)]
            classes = sorted(set(L))          # every value present belongs to the automatic class set; empty classes cannot influence the definitions
        else:
            classes = parts
        ref, defined = stats.partitioned_ref_matrix(X, Y, classes, which)
        nz = np.abs(ref[defined])
        floor = float(nz[nz > 0].min()) if (nz > 0).any() else 1.0
        if min(L) < 0:
            ddts = ['int8'] + (['int16', 'int32'] if tier == 'thorough' else [])
        else:
            ddts = ['uint8'] if max(L) < 256 else ['uint16']
            if tier == 'thorough': ddts = ddts + (['int16', 'uint32'] if max(L) < 32768 else ['int32'])
        for ddt in ddts:
            for seq in seqs:
                if len(seq) > n: continue
                cuts = sorted(set([0] + [1 + (i * (n - 1)) // len(seq) for i in range(1, len(seq))] + [n]))
                if len(cuts) - 1 != len(seq): continue
                batches = [(X[a:b].astype(tdt), Y[a:b].astype(ddt)) for a, b in zip(cuts[:-1], cuts[1:])]
                case = {'config': name, 'N': n, 'which': which, 'prec': prec, 'tdtype': tdt, 'ddtype': ddt, 'kernels': list(seq), 'partitions': parts, 'trace_alphabet': A, 'label_alphabet': L}
                d = D[which](partitions=parts, precision=prec) if parts is not None else D[which](precision=prec)
                try:
                    big = (parts is None and max(L) > 8) or (parts is not None and len(parts) > 9)
                    if big:
                        for tr, da in batches: d.update(tr, da)
                    else:
                        env.forced_updates(d, batches, seq, clock, rec); kernels_seen.update(seq)
                    got = d.compute()
                    got2 = d.compute()
                except env.LostControl:
                    raise
                except Exception as e:
                    col.violation('C04/%s/raised' % which, '%s: %s' % (type(e).__name__, e), case); continue
                col.transitions += len(batches) + 2
                if len(seq) == 1 and ddt == ddts[0]:
                    # memory layout of a batch is not part of its value: Fortran-ordered and strided batches give the same result
                    tr0, da0 = batches[0]
                    wt = np.zeros((tr0.shape[0], 2 * tr0.shape[1]), tr0.dtype); wt[:, ::2] = tr0
                    for vn, (tv, dv) in {'fortran': (np.asfortranarray(tr0), np.asfortranarray(da0)), 'strided': (wt[:, ::2], da0)}.items():
                        d3 = D[which](partitions=parts, precision=prec) if parts is not None else D[which](precision=prec)
                        try:
                            d3.update(tv, dv); g3 = d3.compute()
                        except Exception as e:
                            col.violation('C04/%s/layout-raised' % which, '%s batch: %s: %s' % (vn, type(e).__name__, e), dict(case, view=vn)); continue
                        col.transitions += 2
                        if g3.shape != got.shape or not np.array_equal(g3, got, equal_nan=True):
                            col.violation('C04/%s/layout' % which, '%s on a %s batch differs from the result on the C-contiguous batch' % (which, vn), dict(case, view=vn))
                if got.shape != ref.shape:
                    col.violation('C04/%s/shape' % which, 'result shape %s expected %s' % (got.shape, ref.shape), case); continue
                if not np.array_equal(got, got2, equal_nan=True):
                    col.violation('C04/%s/compute-not-idempotent' % which, 'two consecutive compute() calls differ', case)
                c = compare(got2, ref, defined, tol, floor)
                col.evaluations += defined.size; col.states += defined.size; col.nontrivial += int(defined.sum())
                seen['def'] += int(defined.sum()); seen['undef'] += int((~defined).sum())
                for kind in ('undefined_bad', 'defined_bad', 'value_bad'):
                    k = int(c[kind].sum())
                    if k:
                        w, s = first_index(c[kind])
                        kern = 'kernel2' if 2 in seq else 'kernel1'
                        col.violations_n('C04/%s/%s/%s/%s' % (which, kind, 'auto' if parts is None else 'explicit', kern), k,
                                         '%s %s: traces=%s labels=%s classes=%s got=%r ref=%r (%d entries)' % (which, kind, X[:, s].tolist(), Y[:, w].tolist(),
                                                                                                        'auto' if parts is None else parts, float(got2[w, s]), float(ref[w, s]), k),
                                         dict(case, x=X[:, s].tolist(), y=Y[:, w].tolist(), got=float(got2[w, s]), ref=None if not defined[w, s] else float(ref[w, s])))
                col.err('%s/%s' % (which, prec), c['max_err'])
                col.sample({'config': name, 'which': which, 'x': X[:, min(9, X.shape[1] - 1)].tolist(), 'y': Y[:, min(6, Y.shape[1] - 1)].tolist(), 'classes': 'auto' if parts is None else parts,
                            'ref': None if not defined[min(6, Y.shape[1] - 1), min(9, X.shape[1] - 1)] else float(ref[min(6, Y.shape[1] - 1), min(9, X.shape[1] - 1)])}, limit=1)
    col.guard(seen['def'] > 0 and seen['undef'] > 0, 'vacuity: defined=%d undefined=%d' % (seen['def'], seen['undef']))
    col.counters['kernel1_runs'] = int(1 in kernels_seen); col.counters['kernel2_runs'] = int(2 in kernels_seen)
    return col.result()


def finalize(shards_, results, tier, seed):
    k2 = sum(r.get('counters', {}).get('kernel2_runs', 0) for r in results)
    return {'guard_failures': [] if k2 else ['vacuity: kernel 2 never exercised'], 'both_kernels_exercised': bool(k2)}
