"""C14 - templates are class means with pooled covariance; matching is Mahalanobis; matching before build is refused (E1 over build/match histories)."""
PROPERTY = 'C14'
LEVEL = 'model_checking'
ENGINE = 'E1'
RULE = ('explicit-state BFS over histories of real TemplateAttack / TemplateDPAAttack objects: events B(bs) = build() with the building container cut in batches of bs (every bs in 1..N_b), M(set, bs) = run() on a '
        'matching container (every bs in 1..N_m; a second set accumulates), M before any build (must be refused and leave the object usable), a second B (building traces accumulate); depth <= 5; for every building '
        'profile (class sizes (2,2), (2,3), (3,2,4), (2,2,2), with and without building traces of an undeclared value) x trace length 1..3 x precision x class declaration (contiguous, gapped, permuted, with an '
        'unused declared class). A case = one history; non-trivial = a history ending with a matching whose reference is well conditioned')
ASSUMPTIONS = ['numpy/numba/estraces trusted', 'a declared class with exactly one building trace makes the unbiased covariance undefined (the code substitutes a count of 2): such builds are counted, not compared; a declared class with no building trace contributes nothing and counts in the divisor (average over DECLARED classes)',
               'scores are compared only where the reference pooled covariance has condition number < 1e3 (the pseudo-inverse is discontinuous elsewhere); counted otherwise',
               'float32 precision: tolerance 2^-12 relative to the largest magnitude; float64: 2^-36']
TRUSTED = ['mc/refs/frac.py (rational class means / unbiased pooled covariance; numpy pinv of the reference covariance)', 'mc/explorer.py', 'LUT memo']
TECHNIQUE = 'explicit-state breadth-first exploration of build/match/refused-match histories on the real template attacks (state digests incl. the build analysis), rational reference model in lock-step'
LEVEL_TEXT = ('Every history of builds (all batch sizes), matchings on one or two containers (all batch sizes) and a refused matching before build, up to depth 5, is executed on real TemplateAttack and TemplateDPAAttack '
              'objects for every building profile / trace length / precision / class declaration of the menu; templates must be the class means in declaration order, the pooled covariance the mean over declared '
              'classes of the unbiased class covariances, scores 10 minus the mean over matched traces and samples of the squared Mahalanobis distance to the fixed template (static) or to the template of the '
              'hypothesis value (DPA); matching before build must raise and not prevent a later build and matching.')
LEVEL_NOTE = 'Trusted: numpy (pinv), numba, references. Bound: <=9 building traces, <=4+3 matched traces, trace length <=3, depth <=5.'
DESIGN_REF = 'DESIGN.md section 3, C14'

PROFILES = {'2-2': (2, 2), '2-3': (2, 3), '3-2-4': (3, 2, 4), '2-2-2': (2, 2, 2), '2-3-2-2': (2, 3, 2, 2)}
DECLS = {'contiguous': lambda k: list(range(k)), 'gapped': lambda k: [1, 4, 300, 7][:k], 'permuted': lambda k: [5, 0, 2, 9][:k][::-1],
         'anchored': lambda k: [0] + list(range(1, k - 1))[::-1] + [k - 1]}          # first and last class in place, the middle reversed ([0, 2, 1, 3])


def bound(tier):
    return {'profiles': list(PROFILES), 'trace_lengths': [1, 2, 3], 'depth': 5, 'declarations': list(DECLS) + ['with an unused declared class']}


def shards(tier, seed):
    out = []
    for prof in PROFILES:
        for L in (1, 2, 3):
            for prec in ('float32', 'float64'):
                out.append({'name': '%s-L%d-%s' % (prof, L, prec), 'prof': prof, 'L': L, 'prec': prec, 'cost': 5 + L})
    return out


class TplSystem:
    def __init__(self, kind, prof, L, prec, decl, undeclared_rows, seed, tier, unused=False):
        import numpy as np
        import scared
        from mc.common import rng_for, install_lut_memo
        self.np = np; self.sc = scared
        install_lut_memo()
        self.kind, self.prof, self.L, self.prec, self.decl, self.und, self.seed, self.tier = kind, prof, L, prec, decl, undeclared_rows, seed, tier
        sizes = PROFILES[prof]; K = len(sizes)
        self.classes = DECLS[decl](K)
        self.declared = list(self.classes) + ([77] if unused else [])
        rng = rng_for(seed, 'c14', prof, L, decl)
        v = np.concatenate([[self.classes[i]] * n for i, n in enumerate(sizes)])
        X = rng.randint(0, 12, (len(v), L)) + 3 * np.concatenate([[i] * n for i, n in enumerate(sizes)])[:, None]
        if undeclared_rows:
            v = np.concatenate([v, [9, 9]]); X = np.concatenate([X, rng.randint(0, 12, (2, L))])
        perm = rng.permutation(len(v))
        self.bv = v[perm].astype('uint16'); self.bX = X[perm].astype('float64')
        self.sets = {'A': rng.randint(0, 16, (4, L)).astype('float64'), 'B': rng.randint(0, 16, (3, L)).astype('float64')}
        G = 3
        self.hyp = {'A': np.array(self.classes)[rng.randint(0, K, (4, G))].astype('uint16'), 'B': np.array(self.classes)[rng.randint(0, K, (3, G))].astype('uint16')}
        # set R: a matching batch that must be refused in the middle of a history - its hypotheses are template classes for candidate 0 and 2, one of candidate 1 is not a class
        self.sets['R'] = rng.randint(0, 16, (2, L)).astype('float64')
        hr = np.array(self.classes)[rng.randint(0, K, (2, G))].astype('uint16'); hr[1, 1] = 9999
        self.hyp['R'] = hr
        self.G = G
        self.tol = {'float32': 2.0 ** -12, 'float64': 2.0 ** -36}[prec]

        @scared.reverse_selection_function
        def rsf(v):
            return v
        self.rsf = rsf

        @scared.attack_selection_function(guesses=np.arange(G, dtype='uint8'), words=0)
        def asf(h, guesses):
            return h[:, :, None]
        self.asf = asf
        self.counters = {}
        self.max_err = 0.0
        # the template builder picks its accumulation kernel from process_time() measurements: own that answer (constant duration ->
        # kernel 1, kernel 2, kernel 1, ... over the batches of a build), otherwise the object state would depend on machine load
        from scared.distinguishers import template as T
        from mc import env
        self.clock = env.install_clock(T)

    def describe(self):
        return {'attack': self.kind, 'profile': self.prof, 'trace_length': self.L, 'precision': self.prec, 'declaration': self.declared, 'undeclared_building_rows': self.und}

    # -- explorer interface
    def fresh(self):
        sc = self.sc
        cont = sc.Container(sc.traces.read_ths_from_ram(self.bX, v=self.bv.reshape(-1, 1)))
        kw = dict(container_building=cont, reverse_selection_function=self.rsf, model=sc.Value(), precision=self.prec, partitions=list(self.declared))
        if self.kind == 'static':
            return sc.TemplateAttack(**kw)
        return sc.TemplateDPAAttack(selection_function=self.asf, **kw)

    def digest(self, obj):
        from mc.common import canon_state
        return canon_state(obj, skip=('container_building',), deep=('_build_analysis',))

    def model_init(self):
        return (0, (), 0)         # builds, matched sets in order, refused matchings

    def terminal(self, m):
        return len(m[1]) == 2

    def menu(self, m):
        nb, matched, nref = m
        out = []
        Nb = len(self.bv)
        if nb == 0:
            if nref < 1:
                out.append((('M', 'A', 2), 1))
            for bs in range(1, Nb + 1):
                out.append((('B', bs), 0))
            return out
        if nb == 1 and not matched and (self.tier == 'thorough' or (self.decl == 'contiguous' and not self.und)):
            out.append((('B', 1), 1)); out.append((('B', Nb), 1))
        nxt = 'A' if not matched else 'B'
        if matched and nref < 10 and self.kind != 'static':
            out.append((('M', 'R', 2), 1))                   # a refused matching between the two accepted ones
        for bs in range(1, len(self.sets[nxt]) + 1):
            out.append((('M', nxt, bs), 0))
        return out

    def apply(self, obj, ev):
        sc = self.sc; np = self.np
        obs = {'ev': ev, 'exc': None}
        old = sc.Container._BATCH_SIZE
        self.clock.dur = 1.0; self.clock._pending = False
        try:
            if ev[0] == 'B':
                sc.set_batch_size(ev[1])
                obj.build()
                obs['templates'] = np.array(obj.templates); obs['cov'] = np.array(obj.pooled_covariance); obs['inv'] = np.array(obj.pooled_covariance_inv); obs['is_build'] = bool(obj.is_build)
            else:
                sc.set_batch_size(ev[2])
                cont = sc.Container(sc.traces.read_ths_from_ram(self.sets[ev[1]], h=self.hyp[ev[1]], v=np.zeros((len(self.sets[ev[1]]), 1), 'uint16')))
                obj.run(cont)
                obs['scores'] = np.array(obj.scores); obs['results'] = np.array(obj.results)
        except Exception as e:       # noqa
            obs['exc'] = type(e).__name__; obs['exc_msg'] = str(e)[:200]
        finally:
            sc.Container._BATCH_SIZE = old
        obs['pt'] = int(obj.processed_traces)
        return obs

    def obs_key(self, obs):
        return (obs['ev'][0], obs['exc'], obs['pt'], None if 'scores' not in obs else obs['scores'].tobytes())

    def _close(self, got, ref, scale=None):
        np = self.np
        got = np.asarray(got, dtype='float64'); ref = np.asarray(ref, dtype='float64')
        if got.shape != ref.shape:
            return False, float('inf')
        sc_ = max(float(np.max(np.abs(ref))) if ref.size else 1.0, 1e-300) if scale is None else scale
        err = float(np.max(np.abs(got - ref))) / sc_ if ref.size else 0.0
        if not (err == err):
            return False, err
        return err <= self.tol, err

    def model_step(self, m, ev, obs):
        from mc.refs import frac
        np = self.np
        nb, matched, nref = m
        v = []
        cfg = '%s profile=%s L=%d prec=%s declared=%s%s' % (self.kind, self.prof, self.L, self.prec, self.declared, ' +undeclared building rows' if self.und else '')
        fpb = 'C14/%s/' % self.kind
        if ev[0] == 'B':
            if obs['exc'] is not None:
                v.append((fpb + ('build-raised-after-refused-match' if nref else 'build-raised'), '%s: build() raised %s: %s' % (cfg, obs['exc'], obs.get('exc_msg'))))
                return (nb, matched + ('dead', 'dead'), nref), v
            reps = nb + 1
            X = np.concatenate([self.bX] * reps); vv = np.concatenate([self.bv] * reps)
            T, P, ok = frac.templates(X, vv, self.declared)
            for i, c in enumerate(self.declared):
                if int((vv == c).sum()) >= 2:
                    good, err = self._close(obs['templates'][i], T[i], scale=max(1.0, float(np.max(np.abs(T)))))
                    if not good:
                        v.append((fpb + 'templates', '%s: after %d build(s) [batch size %d] template row %d (class value %d) = %s, class mean = %s' % (cfg, reps, ev[1], i, c, obs['templates'][i].tolist(), T[i].tolist())))
                    else: self.max_err = max(self.max_err, err)
            if ok:
                good, err = self._close(obs['cov'], P)
                if not good:
                    v.append((fpb + 'pooled-covariance', '%s: after %d build(s) [batch size %d] pooled covariance %s, mean over declared classes of the unbiased class covariances %s' % (cfg, reps, ev[1], obs['cov'].tolist(), P.tolist())))
                else: self.max_err = max(self.max_err, err)
                if np.linalg.cond(P) < 1e3:
                    good, err = self._close(obs['inv'], np.linalg.pinv(P))
                    if not (err <= 64 * self.tol):
                        v.append((fpb + 'pooled-covariance-inverse', '%s: pooled_covariance_inv is not the pseudo-inverse of the pooled covariance (rel err %.3g)' % (cfg, err)))
                self.counters['builds_compared'] = self.counters.get('builds_compared', 0) + 1
            else:
                self.counters['builds_with_class_below_2_traces_not_compared'] = self.counters.get('builds_with_class_below_2_traces_not_compared', 0) + 1
            if not obs.get('is_build'):
                v.append((fpb + 'is_build', '%s: is_build is false after build()' % cfg))
            return (nb + 1, matched, nref), v
        # matching
        name, bs = ev[1], ev[2]
        if nb == 0:
            if obs['exc'] is None:
                v.append((fpb + 'match-before-build-accepted', '%s: run() before build() was accepted (scores %s)' % (cfg, obs.get('scores'))))
                return (nb, ('dead', 'dead'), nref + 1), v
            if obs['exc'] != 'DistinguisherError':
                v.append((fpb + 'match-before-build-wrong-exception', '%s: run() before build() raised %s: %s' % (cfg, obs['exc'], obs.get('exc_msg'))))
            if obs['pt'] != 0:
                v.append((fpb + 'match-before-build-counted', '%s: processed_traces=%d after a refused matching' % (cfg, obs['pt'])))
            return (nb, matched, nref + 1), v
        if name == 'R':
            if obs['exc'] is None:
                self.counters['undeclared_hypothesis_not_refused'] = self.counters.get('undeclared_hypothesis_not_refused', 0) + 1      # whether it is refused is C16's / C12's business
                return (nb, ('dead', 'dead'), nref + 10), v
            n_before = sum(len(self.sets[s_]) for s_ in matched)
            if obs['pt'] != n_before:
                v.append((fpb + 'refused-match-counted', '%s: processed_traces=%d after a refused matching batch (%d matched before)' % (cfg, obs['pt'], n_before)))
            self.counters['refused_matchings_mid_history'] = self.counters.get('refused_matchings_mid_history', 0) + 1
            return (nb, matched, nref + 10), v
        if obs['exc'] is not None:
            v.append((fpb + ('match-raised-after-refused-match' if nref else 'match-raised'), '%s: run() on set %s [batch size %d] after build raised %s: %s' % (cfg, name, bs, obs['exc'], obs.get('exc_msg'))))
            return (nb, ('dead', 'dead'), nref), v
        sets = matched + (name,)
        Xm = np.concatenate([self.sets[s] for s in sets]); H = np.concatenate([self.hyp[s] for s in sets])
        if obs['pt'] != len(Xm):
            v.append((fpb + 'counter', '%s: processed_traces=%d after matching %d traces' % (cfg, obs['pt'], len(Xm))))
        X = np.concatenate([self.bX] * nb); vv = np.concatenate([self.bv] * nb)
        T, P, ok = frac.templates(X, vv, self.declared)
        if ok and np.linalg.cond(P) < 1e3:
            if self.kind == 'static':
                picks = [[i] * len(Xm) for i in range(len(self.declared))]
            else:
                picks = [[self.declared.index(int(h)) for h in H[:, g]] for g in range(self.G)]
            exp = frac.template_scores(Xm, T, P, picks)
            got = np.asarray(obs['scores'], dtype='float64').reshape(-1)
            scale = max(1.0, float(np.max(np.abs(exp - 10.0))))
            good, err = self._close(got, exp, scale=scale)
            if not (got.shape == exp.shape and err <= 64 * self.tol):
                v.append((fpb + 'scores', '%s: scores after matching sets %s [last batch size %d, %d build(s)] = %s, reference 10 - mean squared Mahalanobis distance = %s'
                          % (cfg, list(sets), bs, nb, got.tolist(), exp.tolist())))
            else:
                self.max_err = max(self.max_err, err)
            self.counters['matchings_compared'] = self.counters.get('matchings_compared', 0) + 1
            if int(np.argmax(exp)) != int(np.argmax(got)) and np.sort(exp)[-1] - np.sort(exp)[-2] > 1e-3 * scale:
                v.append((fpb + 'best-candidate', '%s: best-matching candidate %d, reference %d' % (cfg, int(np.argmax(got)), int(np.argmax(exp)))))
        else:
            self.counters['matchings_ill_conditioned_not_compared'] = self.counters.get('matchings_ill_conditioned_not_compared', 0) + 1
        if not np.array_equal(np.asarray(obs['scores']), np.asarray(obs['results']), equal_nan=True):
            v.append((fpb + 'scores-vs-results', '%s: scores differ from results (identity discriminant)' % cfg))
        return (nb, sets, nref), v


def run_shard(shard, ctx):
    from mc.common import Collector
    from mc.explorer import Explorer
    from mc.refs import frac
    col = Collector()
    frac.selftest()
    tier, seed = ctx['tier'], ctx['seed']
    if shard.get('replay_case') is not None:
        c = shard['replay_case']; d = c['system']
        s = TplSystem(d['attack'], d['profile'], d['trace_length'], d['precision'], c['decl'], d['undeclared_building_rows'], seed, 'thorough', unused=c.get('unused', False))
        obj = s.fresh(); m = s.model_init()
        for ev in c['history']:
            ev = tuple(ev); obs = s.apply(obj, ev); m, viol = s.model_step(m, ev, obs); col.transitions += 1
            for fp, msg in viol: col.violation(fp, msg, c)
        col.evaluations += 1; col.states += 1
        return col.result()
    for kind in ('static', 'dpa'):
        for decl in DECLS:
            if decl == 'anchored' and len(PROFILES[shard['prof']]) < 4: continue          # identical to 'contiguous' below four classes
            if shard['prof'] == '2-3-2-2' and tier == 'quick' and decl != 'anchored': continue
            for und in (False, True):
                for unused in (False, True):
                    if und and decl == 'permuted' and tier == 'quick': continue
                    if decl == 'anchored' and (und or unused): continue
                    if unused and tier == 'quick' and (decl != 'gapped' or und): continue
                    s = TplSystem(kind, shard['prof'], shard['L'], shard['prec'], decl, und, seed, tier, unused=unused)
                    e = Explorer(s, max_depth=5, max_dev=2).run()
                    rep = e.report()
                    col.states += rep['states']; col.transitions += rep['transitions']; col.evaluations += rep['histories_represented']; col.validated += rep['transitions']
                    col.nontrivial += rep['complete_histories']
                    col.count('histories_represented', rep['histories_represented']); col.count('systems')
                    for k, n in s.counters.items(): col.count(k, n)
                    col.err('%s/%s' % (kind, shard['prec']), s.max_err)
                    col.outcomes.update((kind, decl, und, k) for k in e.observations)
                    for fp, msg, hist in e.violations:
                        col.violation(fp, msg, {'system': s.describe(), 'decl': decl, 'unused': unused, 'history': [list(ev) for ev in hist]})
                    col.sample({'system': s.describe(), 'explorer': rep, 'one_history': [list(ev) for ev in max((n[0] for n in e.nodes), key=len)]}, limit=1)
                    col.guard(rep['states'] >= 6, 'vacuity: %s explored %d states' % (s.describe(), rep['states']))
    col.guard(col.counters.get('builds_compared', 0) > 0, 'vacuity: no build compared (%s)' % col.counters)
    return col.result()


def finalize(shards_, results, tier, seed):
    mc = sum(r.get('counters', {}).get('matchings_compared', 0) for r in results)
    # (profile 2-2 with 3 samples has a rank-deficient pooled covariance by construction: its matchings are counted, not compared)
    return {'histories_represented': sum(r.get('counters', {}).get('histories_represented', 0) for r in results), 'matchings_compared': mc,
            'guard_failures': [] if mc > 1000 else ['vacuity: only %d matchings compared with the reference' % mc]}
