"""C10 - key schedules conform and invert: AES from any window, DES from any round key (E3).

AES: key_expansion for every (col_in, col_out) position pair of every key size, on key batches in which every byte
value enters SubWord, against the FIPS-197 reference schedule; key_schedule / inv_key_schedule for every round.
DES: key_schedule(interrupt_after_round=r) for every r on all keys of Hamming weight <=2 / >=62 (every key bit reaches
exactly the round-key positions PC-1/shift/PC-2 send it to); get_master_key from every round index.
"""
PROPERTY = 'C10'
LEVEL = 'model_checking'
ENGINE = 'E3'
RULE = ('structure-complete enumeration: AES {128,192,256} x every col_in in [0,total-Nk] x every col_out in [0,total] (forward, backward, degenerate) x {key batch, single key} '
        'x key dtypes; inv_key_schedule for every round_in 0..10; DES key_schedule for every interrupt_after_round 0..15 on all weight<=2 / >=62 keys + seeded keys; '
        'get_master_key for every round index 0..15; a case = one (position pair or round, key); non-trivial = expected output is not all-zero')
ASSUMPTIONS = ['numpy is trusted', 'key value space: structured pools (every byte value in the last window word; every 1- and 2-bit key) + seeded keys, not all 2^128..2^256 keys']
TRUSTED = ['mc/refs/aes.py and mc/refs/des.py (self-tested at start-up against FIPS vectors and pycryptodome)']
TECHNIQUE = 'exhaustive enumeration of all schedule window positions / round indices on the real key-schedule code against FIPS reference schedules'
LEVEL_TEXT = ('Every one of the (total-Nk+1) x (total+1) (col_in, col_out) pairs for each AES key size is executed on batches of >=280 keys and on single keys and must return exactly the '
              'corresponding slice of the FIPS-197 schedule of the key the window was cut from; inv_key_schedule from every round; DES key_schedule for every interruption round on every '
              '1-/2-bit (and complemented) key; get_master_key from every one of the 16 round keys must return the original key up to parity bits.')
LEVEL_NOTE = 'Trusted: numpy, reference schedules. get_master_key is exercised on 5 (quick) / 12 (thorough) keys per round index (each call costs ~1 s), including the keys whose 8 searched bits are all ones / all zeros.'
DESIGN_REF = 'DESIGN.md section 3, C10'


def bound(tier):
    return {'aes_positions': 'all', 'des_rounds': 'all 16', 'master_key_keys_per_round': 2 if tier == 'quick' else 8}


def shards(tier, seed):
    out = []
    for nk in (16, 24, 32):
        for half in (0, 1):
            out.append({'name': 'aes-expansion-%d-%d' % (nk * 8, half), 'kind': 'aes', 'nk': nk, 'half': half, 'cost': 20})
    out.append({'name': 'aes-schedule-inv', 'kind': 'aesinv', 'cost': 5})
    out.append({'name': 'des-schedule', 'kind': 'des', 'cost': 20})
    out.append({'name': 'histories', 'kind': 'histories', 'cost': 10})
    for r in range(16):
        out.append({'name': 'des-master-r%02d' % r, 'kind': 'master', 'round': r, 'cost': 15})
    return out


def _aes_pool(np, seed, nk, R):
    from mc.common import rng_for
    rng = rng_for(seed, 'c10', nk)
    fips = {16: '2b7e151628aed2a6abf7158809cf4f3c', 24: '8e73b0f7da0e6452c810f32b809079e562f8ead2522c6b7b',
            32: '603deb1015ca71be2b73aef0857d77811f352c073b6108d72d9810a30914dff4'}[nk]
    ks = [list(bytes.fromhex(fips)), [0] * nk, [255] * nk, list(range(nk))] + rng.randint(0, 256, (20, nk)).tolist()
    base = rng.randint(0, 256, nk).tolist()
    for v in range(256):
        k = list(base); k[nk - 1 - (v % 4)] = v; k[nk - 4 + ((v + 1) % 4)] ^= (v * 7) & 255
        ks.append(k)
    keys = np.array(ks, dtype=np.uint8)
    full = np.array([sum(R.expand(k), []) for k in ks], dtype=np.uint8)     # (K, total*4)
    return keys, full


def run_shard(shard, ctx):
    import numpy as np
    from mc.common import Collector
    col = Collector()
    kind = shard['kind']
    if kind == 'aes': _aes(shard, ctx, col, np)
    elif kind == 'aesinv': _aesinv(ctx, col, np)
    elif kind == 'des': _des(ctx, col, np)
    elif kind == 'histories': _histories(ctx, col, np)
    else: _master(shard, ctx, col, np)
    return col.result()


def _aes(shard, ctx, col, np):
    from scared.aes import base as aes
    from mc.refs import aes as R
    R.selftest()
    nk = shard['nk']; Nk = nk // 4; total = {16: 44, 24: 52, 32: 60}[nk]
    keys, full = _aes_pool(np, ctx['seed'], nk, R)
    cis = [c for c in range(0, total - Nk + 1) if c % 2 == shard['half']]
    for ci in cis:
        win = np.ascontiguousarray(full[:, 4 * ci:4 * (ci + Nk)])
        win0 = win.copy()
        for co in list(range(0, total + 1)) + [None]:
            eco = total if co is None else co
            exp = full[:, 4 * ci:4 * eco] if ci < eco else full[:, 4 * eco:4 * (ci + Nk)]
            direction = 'forward' if ci < eco else 'backward'
            for variant in ('batch', 'single', 'int32'):
                if variant != 'batch' and (ci + eco) % 3: continue            # single-key / dtype variants on a third of the pairs
                w = win if variant == 'batch' else (win[7] if variant == 'single' else win[:9].astype('int32'))
                e = exp if variant == 'batch' else (exp[7:8] if variant == 'single' else exp[:9])
                case = {'key_bytes': nk, 'col_in': ci, 'col_out': co, 'variant': variant}
                try:
                    out = aes.key_expansion(w, col_in=ci, col_out=co) if co is not None else aes.key_expansion(w, col_in=ci)
                except Exception as ex:
                    col.violation('C10/aes%d/%s/raised' % (nk * 8, direction), '%s: %s' % (type(ex).__name__, ex), case); continue
                col.transitions += 1; n = e.shape[0]; col.evaluations += n; col.states += n; col.nontrivial += int((e != 0).any(axis=1).sum()) if e.size else 0
                out2 = np.asarray(out).reshape(-1, out.shape[-1]) if out.size else np.asarray(out).reshape(e.shape)
                if out2.shape != e.shape:
                    col.violation('C10/aes%d/%s/shape' % (nk * 8, direction), 'output shape %s expected %s' % (out.shape, e.shape), case); continue
                if not np.array_equal(out2, e):
                    bad = (out2 != e).any(axis=1); j = int(np.argmax(bad))
                    kj = keys[j if variant == 'batch' else (7 if variant == 'single' else j)].tolist()
                    firstcol = int(np.argmax(out2[j] != e[j])) // 4
                    col.violations_n('C10/aes%d/%s' % (nk * 8, direction), int(bad.sum()),
                                     'key_expansion(window at col %d, col_out=%s) wrong from output column %d for master key %s' % (ci, co, firstcol, kj), dict(case, master_key=kj))
        if not np.array_equal(win, win0):
            col.violation('C10/aes/caller-array-modified', 'key_expansion modified its argument', {'col_in': ci})
    col.sample({'key_bytes': nk, 'col_in': cis[1], 'col_out': total, 'window': full[0, 4 * cis[1]:4 * (cis[1] + Nk)].tolist(), 'keys_in_batch': int(len(keys))}, limit=1)


def _aesinv(ctx, col, np):
    from scared.aes import base as aes
    from mc.refs import aes as R
    R.selftest()
    for nk in (16, 24, 32):
        keys, full = _aes_pool(np, ctx['seed'], nk, R)
        nr = nk // 4 + 6
        exp = full.reshape(len(keys), nr + 1, 16)
        for variant, k, e in (('batch', keys, exp), ('single', keys[0], exp[0]), ('batch1', keys[5:6], exp[5:6]), ('int16', keys[:6].astype('int16'), exp[:6])):
            got = aes.key_schedule(k); col.transitions += 1
            n = np.atleast_2d(k).shape[0]; col.evaluations += n; col.states += n; col.nontrivial += n
            if got.shape != e.shape or not np.array_equal(got, e):
                col.violation('C10/aes%d/key_schedule' % (nk * 8), 'key_schedule mismatch (%s): shape %s vs %s' % (variant, got.shape, e.shape), {'key_bytes': nk, 'variant': variant,
                              'key': np.atleast_2d(k)[0].tolist()})
        if nk == 16:
            for r in range(11):
                for variant, rk, e in (('batch', exp[:, r], exp), ('single', exp[3, r], exp[3])):
                    got = aes.inv_key_schedule(np.ascontiguousarray(rk), round_in=r); col.transitions += 1
                    n = np.atleast_2d(rk).shape[0]; col.evaluations += n; col.states += n; col.nontrivial += n
                    if got.size != e.size or not np.array_equal(got.reshape(e.shape), e):      # a single round key comes back with a leading axis of 1: values decide
                        col.violation('C10/aes128/inv_key_schedule', 'inv_key_schedule(round_in=%d) (%s) does not reproduce the schedule' % (r, variant), {'round_in': r, 'variant': variant})
            got = aes.inv_key_schedule(np.ascontiguousarray(exp[:, 10]))      # default round_in
            if not np.array_equal(got, exp):
                col.violation('C10/aes128/inv_key_schedule', 'inv_key_schedule default round_in does not reproduce the schedule', {})
    col.sample({'check': 'aes key_schedule / inv_key_schedule', 'rounds': 11}, limit=1)


def _histories(ctx, col, np):
    """The schedules have no memory: every call sequence of depth <= D over {aes.key_schedule, aes.key_expansion (forward window / backward window), aes.inv_key_schedule,
    des.key_schedule} on the SAME argument array objects with in-place rewrites between calls returns the schedule of the CURRENT contents."""
    import itertools
    from scared.aes import base as aes
    from scared.des import base as des
    from mc.refs import aes as RA, des as RD
    RA.selftest(); RD.selftest()
    tier = ctx['tier']
    depth = 4 if tier == 'quick' else 5
    for fam in ('aes16', 'aes24', 'aes32', 'des'):
        nk = {'aes16': 16, 'aes24': 24, 'aes32': 32, 'des': 8}[fam]
        if fam == 'des':
            pool = np.array(_des_keys(np, ctx['seed'])[-12:], dtype=np.uint8)
            sched = np.array([RD.key_schedule(k.tolist()) for k in pool], dtype=np.uint8)                 # (K, 16, 8)
            calls = {'S': lambda a: des.key_schedule(a), 'S5': lambda a: des.key_schedule(a, interrupt_after_round=5)}
            expect = {'S': lambda i: sched[i], 'S5': lambda i: sched[i][:6]}
        else:
            keys, full = _aes_pool(np, ctx['seed'], nk, RA)
            pool = keys[:12]; Nk = nk // 4; nr = Nk + 6
            sched = full[:12].reshape(12, nr + 1, 16)
            calls = {'S': lambda a: aes.key_schedule(a), 'X': lambda a: aes.key_expansion(a, col_in=0)}
            expect = {'S': lambda i: sched[i], 'X': lambda i: full[i]}
            if nk == 16:
                # the same buffer reinterpreted as the LAST round key: the schedule that ends with the current contents
                import numpy as _n
                last = {}
                def inv_expect(i, last=last):
                    if i not in last:
                        rk = pool[i].tolist(); w = [rk[4 * c:4 * c + 4] for c in range(4)]
                        cols = {40 + c: w[c] for c in range(4)}
                        for c in range(39, -1, -1):
                            t = cols[c + 3]
                            if (c + 4) % 4 == 0:
                                t = [RA.SBOX[b] for b in t[1:] + t[:1]]; t = [t[0] ^ [0, 1, 2, 4, 8, 16, 32, 64, 128, 27, 54][(c + 4) // 4]] + t[1:]
                            cols[c] = [a ^ b for a, b in zip(cols[c + 4], t)]
                        last[i] = _n.array([b for c in range(44) for b in cols[c]], dtype=_n.uint8).reshape(11, 16)
                    return last[i]
                if True:
                    calls['I'] = lambda a: aes.inv_key_schedule(a); expect['I'] = inv_expect
        muts = ('Kall', 'Kbyte')
        menu = list(calls) + list(muts)
        for shape in ('single', 'stack'):
            for seq in itertools.product(menu, repeat=depth):
                if seq[-1] in muts or not any(e in muts for e in seq): continue
                if any(a in muts and a == b_ for a, b_ in zip(seq, seq[1:])): continue
                idx = [0] if shape == 'single' else [0, 1, 2]
                cur = pool[idx].copy()                                   # tracked contents
                K = cur[0].copy() if shape == 'single' else cur.copy()    # the array object handed to the library
                step = 0; held = []
                for pos, ev in enumerate(seq):
                    if ev == 'Kall':
                        step += 1; idx = [(step * 3 + j) % 12 for j in range(len(idx))]; K[...] = pool[idx[0]] if shape == 'single' else pool[idx]
                    elif ev == 'Kbyte':
                        step += 1
                        # a one-byte change that lands on another pool key is not available: swap the LAST row for the next pool key (one row of a stack / the whole single key)
                        idx[-1] = (idx[-1] + 5) % 12
                        if shape == 'single': K[...] = pool[idx[0]]
                        else: K[-1] = pool[idx[-1]]
                    else:
                        case = {'kind': 'history', 'family': fam, 'shape': shape, 'sequence': list(seq), 'position': pos}
                        col.evaluations += 1; col.states += 1; col.transitions += 1
                        try:
                            got = np.asarray(calls[ev](K))
                            held.append((pos, got, np.array(got)))
                        except Exception as e:
                            col.violation('C10/history/raised', '%s %s, call %d of %s: %s: %s' % (fam, shape, pos, list(seq), type(e).__name__, e), case); continue
                        exp = np.array([expect[ev](i) for i in idx])
                        if pos and any(e in muts for e in seq[:pos]): col.nontrivial += 1
                        if got.size != exp.size or not np.array_equal(got.reshape(exp.shape), exp):
                            col.violation('C10/history/%s' % fam, '%s %s: call %d (%s) of the sequence %s on the same key array object (rewritten in place between calls) does not return the schedule of its current '
                                          'contents %s' % (fam, shape, pos, ev, list(seq), np.atleast_2d(K)[-1].tolist()), case)
                for pos_, arr, snap in held:
                    if not np.array_equal(np.asarray(arr), snap):
                        col.violation('C10/history/earlier-result-rewritten', 'the array returned by call %d of the sequence %s changed during later calls' % (pos_, list(seq)), {'kind': 'history', 'sequence': list(seq), 'position': pos_}); break
                col.outcomes.add((fam, shape) + seq)
    col.sample({'check': 'call histories on reused key arrays', 'depth': depth}, limit=1)


def _des_keys(np, seed):
    from mc.common import rng_for
    vals = [0]
    for i in range(64):
        vals.append(1 << i)
        for j in range(i + 1, 64): vals.append((1 << i) | (1 << j))
    full = (1 << 64) - 1
    vals += [full ^ v for v in vals]
    ks = [[(v >> (8 * (7 - b))) & 255 for b in range(8)] for v in vals]
    ks += rng_for(seed, 'c10-des').randint(0, 256, (40, 8)).tolist()
    ks.append(list(bytes.fromhex('133457799BBCDFF1')))
    return ks


def _des(ctx, col, np):
    from scared.des import base as des
    from mc.refs import des as R
    R.selftest()
    ks = _des_keys(np, ctx['seed'])
    keys = np.array(ks, dtype=np.uint8)
    exp = np.array([R.key_schedule(k) for k in ks], dtype=np.uint8)       # (K, 16, 8)
    k0 = keys.copy()
    for r in list(range(16)) + [None]:
        er = 15 if r is None else r
        got = des.key_schedule(keys, interrupt_after_round=r) if r is not None else des.key_schedule(keys)
        col.transitions += 1; col.evaluations += len(ks); col.states += len(ks); col.nontrivial += int((exp[:, :er + 1] != 0).any(axis=(1, 2)).sum())
        e = exp[:, :er + 1]
        if got.shape != e.shape or not np.array_equal(got, e):
            bad = (got != e).any(axis=(1, 2)) if got.shape == e.shape else np.ones(len(ks), bool); j = int(np.argmax(bad))
            rr = int(np.argmax((got[j] != e[j]).any(axis=1))) if got.shape == e.shape else -1
            col.violations_n('C10/des/key_schedule', int(bad.sum()), 'key_schedule(%s, interrupt_after_round=%s) wrong at round %d: got %s expected %s'
                             % (ks[j], r, rr, got[j][rr].tolist() if rr >= 0 else got.shape, e[j][rr].tolist() if rr >= 0 else e.shape), {'key': ks[j], 'interrupt_after_round': r})
        g1 = des.key_schedule(keys[-1], interrupt_after_round=er); col.transitions += 1
        if g1.shape != (er + 1, 8) or not np.array_equal(g1, exp[-1, :er + 1]):
            col.violation('C10/des/key_schedule-single', 'single-key schedule mismatch at interrupt_after_round=%s' % r, {'key': ks[-1], 'interrupt_after_round': r})
    if not np.array_equal(keys, k0):
        col.violation('C10/des/caller-array-modified', 'key_schedule modified its argument', {})
    col.sample({'check': 'des.key_schedule', 'keys': len(ks), 'example_key': ks[70], 'round_key_0': exp[70, 0].tolist()}, limit=1)


def _master(shard, ctx, col, np):
    from scared.des import base as des
    from mc.refs import des as R
    from mc.common import rng_for
    R.selftest()
    r = shard['round']
    nkeys = 2 if ctx['tier'] == 'quick' else 8
    rng = rng_for(ctx['seed'], 'c10-master', r)
    ks = [list(bytes.fromhex('133457799BBCDFF1'))] + rng.randint(0, 256, (nkeys - 1, 8)).tolist()
    # the 8 effective key bits that round key r does not contain have to be searched (2^8 candidates): put them all to one and all to zero,
    # i.e. make the true key the first / the last candidate of that search whatever its order
    base = rng.randint(0, 256, 8).tolist()
    ref_rk = R.key_schedule(base)[r]
    free = []
    for byte in range(8):
        for bit in range(1, 8):                       # bit 0 of each byte is the parity bit
            k2 = list(base); k2[byte] ^= (1 << bit)
            if R.key_schedule(k2)[r] == ref_rk: free.append((byte, bit))
    if len(free) != 8:
        col.guard(False, 'reference: %d key bits are not covered by round key %d (expected 8)' % (len(free), r))
    hi = list(base); lo = list(base)
    for byte, bit in free:
        hi[byte] |= (1 << bit); lo[byte] &= ~(1 << bit) & 0xFF
    ks += [hi, lo, [0xFF] * 8] + ([[0x00] * 8] if ctx['tier'] == 'thorough' else [])
    for k in ks:
        pt = rng.randint(0, 256, 8).tolist()
        ct = R.encrypt_block(pt, k)
        rk = np.array(R.key_schedule(k)[r], dtype=np.uint8)
        case = {'key': k, 'round': r, 'plaintext': pt, 'ciphertext': ct}
        col.evaluations += 1; col.states += 1; col.transitions += 1; col.nontrivial += 1
        try:
            got = des.get_master_key(rk, r, np.array(pt, dtype=np.uint8), np.array(ct, dtype=np.uint8))
        except Exception as ex:
            col.violation('C10/des/get_master_key/raised', '%s: %s' % (type(ex).__name__, ex), case); continue
        if got is None or (np.asarray(got) & 0xFE).tolist() != [b & 0xFE for b in k]:
            col.violation('C10/des/get_master_key', 'get_master_key from round key %d returned %s for key %s' % (r, None if got is None else np.asarray(got).tolist(), k), case)
    col.sample({'check': 'des.get_master_key', 'round': r, 'key': ks[0]}, limit=1)
