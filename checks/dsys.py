"""Distinguisher systems for the history explorer (E1): shared by C01 (batch-split invariance / read-only compute),
C16 (rejected updates) and C11 (kernel sequences).  Imported inside worker processes only.

A DistSystem wraps one configuration (family, trace dtype, precision, word shape, value pool).  Events:

    ('U', k)        update with the next k rows of the pool
    ('C',)          compute
    ('R', kind)     a call the real code is expected to refuse (C16); the model treats a call that RAISES as a no-op

Model state: (rows consumed i, consecutive computes c, any batch accepted, alive).
The oracle compares every observation with (a) the exact rational definition of the statistic on exactly the accepted
rows, (b) the result of a fresh object fed the same rows in ONE batch (bit-identical on exact pools), (c) the
processed-trace count, (d) the previous compute when two computes are consecutive.
"""
import numpy as np

from mc.common import canon_state, compare, TOL, rng_for, install_lut_memo
from mc.refs import frac
from mc import env

FAMILIES = ('cpa', 'cpa_alt', 'dpa', 'anova', 'nicv', 'snr', 'mia', 'tplbuild', 'tplstatic', 'tpldpa', 'ttacc')
PARTITIONED = ('anova', 'nicv', 'snr')
CLASSES = [0, 1, 2, 3]
AUTO_VALUES = [0, 1, 2, 40]         # label alphabet of the automatic-class-set systems (first-batch maximum 40 -> classes 0..63)
TPL_CLASSES = [0, 1, 2]          # declared classes of the matching systems (built from 9 traces, 3 per class)
TPLB_CLASSES = [2, 0]            # declared classes of the template-build systems (rows alternate, so every prefix of >= 4 rows is defined)


def _scared():
    import scared
    return scared


_TPLB = {}


def tplbuild_class():
    """Standalone template builder assembled from the public base + the build mixin (what _TemplateBuildAnalysis combines)."""
    if 'c' not in _TPLB:
        from scared.distinguishers import partitioned as P, template as T

        class TemplateBuildDistinguisher(P.PartitionedDistinguisherBase, T._TemplateBuildDistinguisherMixin):
            pass
        _TPLB['c'] = TemplateBuildDistinguisher
    return _TPLB['c']


def make_pool(family, kind, N, S, wdims, tdt, seed, auto=False):
    """-> (traces (N,S) in tdt, data (N,*wdims), exact: bool)."""
    rng = rng_for(seed, family, kind, N, S, tuple(wdims), tdt)
    tdt = np.dtype(tdt)
    if kind == 'exact':
        lo, hi = (0, 16) if family != 'ttacc' else (0, 41)     # t-test accumulator: squares that do not fit uint8 (a square taken before promotion would wrap)
        X = rng.randint(lo, hi, (N, S))
    elif kind == 'signed':
        X = rng.randint(-8, 8, (N, S))
    elif kind == 'dyadic':
        X = rng.randint(-16, 16, (N, S)) / 8.0
    elif kind == 'adversarial':
        X = rng.randint(0, 16, (N, S)); X[:, 0] = 7                      # constant sample
        if S > 1: X[:, 1] = np.arange(N) % 2 * 15                        # extreme alternating sample
    elif kind == 'float':
        X = rng.randint(0, 16, (N, S)) + np.round(rng.uniform(-0.45, 0.45, (N, S)), 3)    # well spread, not exactly representable
    else:
        raise ValueError(kind)
    if tdt.kind in 'iu' and kind in ('dyadic', 'float'):
        raise ValueError('pool %s needs a float trace dtype' % kind)
    if tdt.kind == 'u' and kind == 'signed':
        raise ValueError('signed pool needs a signed dtype')
    X = X.astype(tdt)
    W = int(np.prod(wdims))
    if family == 'dpa':
        Y = rng.randint(0, 2, (N, W))
        if kind == 'adversarial': Y[:, 0] = 1                             # empty zero class for word 0
    elif family in ('tplbuild',):
        Y = np.array(TPLB_CLASSES)[np.arange(N) % len(TPLB_CLASSES)].reshape(N, 1)
        if kind == 'adversarial' and N >= 5:
            Y[4, 0] = 1                                                   # an undeclared class value among the building traces
    elif family in ('tplstatic', 'tpldpa', 'tplstatic0', 'tpldpa0'):
        Y = np.array(TPL_CLASSES)[rng.randint(0, len(TPL_CLASSES), (N, W))]
    else:
        Y = rng.randint(0, len(CLASSES), (N, W))
        if kind == 'adversarial' and N >= 3:
            Y[:, 0] = 1; Y[N - 1, 0] = 2                                  # singleton class in word 0
        if auto:
            Y = np.array(AUTO_VALUES)[Y]                                  # automatic class sets: labels {0,1,2,40} -> the 64-class bracket
            Y[0, :] = max(AUTO_VALUES)                                    # row 0 carries the maximum (class set frozen by the first batch)
    Y = Y.astype('uint8').reshape((N,) + tuple(wdims))
    exact = kind != 'float'
    return X, Y, exact


def mia_edges(kind):
    return {'exact': [0, 4, 8, 12, 16], 'adversarial': [0, 4, 8, 12, 16], 'signed': [-8, -4, 0, 4, 8], 'dyadic': [-2, -1, 0, 1, 2], 'float': [-1, 3.5, 8, 12.5, 17]}[kind]


class DistSystem:
    def __init__(self, family, tdt, prec, S, wdims, pool_kind, N, seed, auto=False, policy='alt', rejections=(), max_rej=0,
                 allow_early_compute=True, max_consecutive_computes=2, auto_edges=False):
        self.family, self.tdt, self.prec, self.S, self.wdims, self.kind, self.N, self.seed = family, tdt, prec, S, tuple(wdims), pool_kind, N, seed
        self.auto, self.policy = auto, policy
        self.auto_edges = auto_edges          # MIA without explicit bin edges: the histogram window is taken from the first ACCEPTED batch
        self.rejections, self.max_rej = tuple(rejections), max_rej
        self.early_c = allow_early_compute
        self.max_cc = max_consecutive_computes
        self.X, self.Y, self.exact = make_pool(family, pool_kind, N, S, wdims, tdt, seed, auto)
        if auto_edges:
            self.X = self.X.copy()
            self.X[0, :] = self.X.min(); self.X[1, :] = self.X.max()          # the first accepted batch (>= 2 rows, see menu) always spans the whole range
            self.X[2:, :] = np.clip(self.X[2:, :], self.X.min() + 3, self.X.max() - 3) # the other rows (also used for refused batches) span a NARROWER range
        self.W = int(np.prod(self.wdims))
        self.tol = TOL['float64' if family == 'mia' else prec]
        self._oneshot = {}
        self._ref = {}
        self._last = None
        self._last_was_c = False
        self.counters = {}
        self.max_err = 0.0
        self.raised_kinds = set()
        self.accepted_kinds = set()
        self.kernels_seen = set()
        install_lut_memo()
        from scared.distinguishers import partitioned as P, template as T
        self.clockP = env.install_clock(P)
        self.clockT = env.install_clock(T)
        if family in ('tplstatic', 'tpldpa', 'tplstatic0', 'tpldpa0'):
            self._prepare_template()
        self.fam = family[:-1] if family.endswith('0') else family       # statistic family (an unbuilt attack computes the same scores once built)

    # ----------------------------------------------------------------------------------------------------- construction
    def describe(self):
        return {'family': self.family, 'trace_dtype': self.tdt, 'precision': self.prec, 'S': self.S, 'word_dims': list(self.wdims), 'pool': self.kind,
                'N': self.N, 'auto_classes': self.auto, 'clock_policy': self.policy, 'auto_edges': self.auto_edges}

    def _prepare_template(self):
        sc = _scared()
        rng = rng_for(self.seed, 'tpl-building', self.S, self.tdt, self.kind)
        nb = 9
        cls = (np.arange(nb) % 3).astype('uint8')
        if self.kind in ('dyadic',):
            Xb = (rng.randint(-16, 16, (nb, self.S)) / 8.0 + cls[:, None] * 0.5)
        elif self.kind == 'float':
            Xb = rng.randint(0, 12, (nb, self.S)) + np.round(rng.uniform(-0.45, 0.45, (nb, self.S)), 3) + 2 * cls[:, None]
        else:
            Xb = rng.randint(0, 12, (nb, self.S)) + 2 * cls[:, None]
        self._bX = Xb.astype(self.tdt); self._bv = np.array(TPL_CLASSES, dtype='uint8')[cls].reshape(nb, 1)

        @sc.reverse_selection_function
        def rsf(v):
            return v
        self._rsf = rsf

        @sc.attack_selection_function(guesses=np.arange(self.W, dtype='uint8'), words=0)
        def asf(h, guesses):
            return h[:, :, None]
        self._asf = asf

    def fresh(self):
        sc = _scared()
        self._last = None; self._last_was_c = False
        self._cur_rows = 0
        f = self.family
        if f == 'cpa': return sc.CPADistinguisher(precision=self.prec)
        if f == 'cpa_alt': return sc.CPAAlternativeDistinguisher(precision=self.prec)
        if f == 'dpa': return sc.DPADistinguisher(precision=self.prec)
        if f in PARTITIONED:
            D = {'anova': sc.ANOVADistinguisher, 'nicv': sc.NICVDistinguisher, 'snr': sc.SNRDistinguisher}[f]
            return D(precision=self.prec) if self.auto else D(partitions=list(CLASSES), precision=self.prec)
        if f == 'mia':
            kw = {} if self.auto else {'partitions': list(CLASSES)}
            if self.auto_edges:
                return sc.MIADistinguisher(bins_number=4, precision=self.prec, **kw)
            return sc.MIADistinguisher(bin_edges=mia_edges(self.kind), precision=self.prec, **kw)
        if f == 'tplbuild':
            return tplbuild_class()(partitions=list(TPLB_CLASSES), precision=self.prec)
        if f in ('tplstatic', 'tpldpa', 'tplstatic0', 'tpldpa0'):
            old = sc.Container._BATCH_SIZE
            sc.set_batch_size(4)
            try:
                cont = sc.Container(sc.traces.read_ths_from_ram(self._bX, v=self._bv))
                if f.startswith('tplstatic'):
                    a = sc.TemplateAttack(container_building=cont, reverse_selection_function=self._rsf, model=sc.Value(), precision=self.prec, partitions=list(TPL_CLASSES))
                else:
                    a = sc.TemplateDPAAttack(container_building=cont, reverse_selection_function=self._rsf, selection_function=self._asf, model=sc.Value(),
                                             precision=self.prec, partitions=list(TPL_CLASSES))
                if not f.endswith('0'):
                    self._set_clock(a._build_analysis)
                    a.build()
            finally:
                sc.Container._BATCH_SIZE = old
            return a
        if f == 'ttacc':
            return sc.TTestThreadAccumulator(precision=np.dtype(self.prec))
        raise ValueError(f)

    def digest(self, obj):
        return canon_state(obj, skip=('container_building',), deep=('_build_analysis',))

    # ----------------------------------------------------------------------------------------------------- model
    def model_init(self):
        # rows consumed, consecutive computes, accepted any, alive, rejections so far, built (template attacks), kinds of the refused calls so far
        return (0, 0, False, True, 0, not self.family.endswith('0'), ())

    def terminal(self, m):
        i, c, acc, alive, nr, built, rk = m
        return (not alive) or (i == self.N and c >= self.max_cc)

    def menu(self, m):
        i, c, acc, alive, nr, built, rk = m
        out = []
        if not alive:
            return out
        if not built:
            out.append((('B',), 0))
            if nr < self.max_rej:
                out.append((('R', 'notbuilt'), 1))
            return out
        for k in range(2 if (self.auto_edges and i == 0) else 1, self.N - i + 1):
            out.append((('U', k), 0))
        if c < self.max_cc and (i > 0 or self.early_c):
            out.append((('C',), 0))
        if nr < self.max_rej:
            for kind in self.rejections:
                if self._rej_enabled(kind, m):
                    out.append((('R', kind), 1))
        return out

    def _rej_enabled(self, kind, m):
        i, c, acc, alive, nr, built, rk = m
        if kind == 'notbuilt':
            return False
        if kind in ('len', 'len_less', 'words'):
            return acc                                   # relative to EARLIER batches; as a first call they define the shape
        if kind in ('dparange', 'autorange', 'autoneg', 'dpafloat', 'dtype_small', 'dtype64_small'):
            return not acc                               # only the first call inspects the value range
        if kind == 'memory':
            return not acc                               # the memory guard is evaluated once per object
        return True

    # ----------------------------------------------------------------------------------------------------- real calls
    def _set_clock(self, obj):
        """Scripted duration for the next accumulation, as a function of the object's own timing state (so the digest of the
        object determines the future): 'alt' alternates kernels, 'k1' stays on kernel 1, 'k2' moves to kernel 2 and stays."""
        tim = list(getattr(obj, '_timings', [-2, -1]))
        cur = int(np.argmin(tim))
        if self.policy == 'alt':
            dur = float(max(tim)) + 1.0
        elif self.policy == 'k1':
            dur = float(min(tim)) - 1.0 if cur == 0 else float(max(tim)) + 1.0
        elif self.policy == 'k2':
            dur = float(min(tim)) - 1.0 if cur == 1 else float(max(tim)) + 1.0
        else:
            raise ValueError(self.policy)
        for clk in (self.clockP, self.clockT):
            clk.dur = dur; clk._pending = False

    def _call_update(self, obj, tr, da):
        if self.family == 'ttacc':
            return obj.update(tr)
        return obj.update(tr, da)

    def apply(self, obj, ev):
        obs = {'ev': ev, 'exc': None}
        self._set_clock(obj)
        was_c = self._last_was_c
        self._last_was_c = False
        try:
            if ev[0] == 'U':
                lo = self._rows_consumed(obj)
                tr, da = self.X[lo:lo + ev[1]], self.Y[lo:lo + ev[1]]
                self._call_update(obj, tr, da)
                self._mark(obj, ev[1])
            elif ev[0] == 'C':
                res = self._compute(obj)
                obs['res'] = res
                if was_c and self._last is not None:
                    obs['same_as_prev'] = all(np.array_equal(a, b, equal_nan=True) for a, b in zip(res, self._last))
                self._last = res; self._last_was_c = True
            elif ev[0] == 'R':
                self._reject_call(obj, ev[1])
            elif ev[0] == 'B':
                sc = _scared()
                old = sc.Container._BATCH_SIZE
                sc.set_batch_size(4)
                try:
                    self._set_clock(obj._build_analysis)
                    obj.build()
                finally:
                    sc.Container._BATCH_SIZE = old
        except Exception as e:          # noqa - the observation records what the real call did
            obs['exc'] = type(e).__name__
            obs['exc_msg'] = str(e)[:200]
        obs['pt'] = int(getattr(obj, 'processed_traces', -1))
        return obs

    # rows consumed so far by the object being replayed: replay bookkeeping of the harness (NOT stored on the object, whose
    # vars() are the digest); the explorer works on one object at a time: fresh() then apply() in sequence.
    def _rows_consumed(self, obj):
        return self._cur_rows

    def _mark(self, obj, k):
        self._cur_rows += k

    def _compute(self, obj):
        f = self.family
        if f == 'ttacc':
            obj.compute()
            return (np.array(obj.mean), np.array(obj.var))
        r = obj.compute()
        if f == 'tplbuild':
            out = (np.array(r), np.array(obj.pooled_covariance), np.array(obj.pooled_covariance_inv))
        else:
            out = (np.array(r),)
        # the returned array belongs to the caller: what the caller does to it afterwards (normalising in place, replacing NaN, ...) is not an input of the next compute()
        if isinstance(r, np.ndarray) and r.flags.writeable and r.size:
            try:
                r[...] = 77
            except Exception:
                pass
        return out

    def _reject_call(self, obj, kind):
        lo = self._rows_consumed(obj)
        k = 2 if lo + 2 <= self.N else 1
        if lo + k > self.N:
            lo = self.N - k
        if lo == 0 and self.auto_edges:
            lo = self.N - k                      # a refused FIRST batch is made of other rows (narrower sample range) than the first valid batch
        tr = self.X[lo:lo + k].copy(); da = self.Y[lo:lo + k].copy()
        if kind == 'rows':
            da = np.concatenate([da, da[:1]], axis=0)
        elif kind == 'rows_less':
            tr = np.concatenate([tr, tr[:1]], axis=0)
        elif kind == 'len':
            tr = np.concatenate([tr, tr[:, :1]], axis=1)
        elif kind == 'len_less':
            tr = tr[:, :-1]
        elif kind == 'words':
            da = da.reshape(k, -1); da = np.concatenate([da, da[:, :1]], axis=1)
        elif kind == 'type_traces':
            tr = tr.tolist()
        elif kind == 'type_data':
            da = da.tolist()
        elif kind == 'dparange':
            da = da.copy(); da.reshape(-1)[0] = 2
        elif kind == 'dpafloat':
            da = da.astype('float64')
        elif kind == 'autorange':
            da = da.astype('uint16'); da.reshape(-1)[0] = 300
        elif kind == 'autoneg':
            da = da.astype('int16'); da.reshape(-1)[0] = -1
        elif kind == 'dtype':
            da = da.astype('float64')
        elif kind == 'dtype64':
            da = da.astype('int64')
        elif kind == 'dtype_small':
            da = (da % 4).astype('float64')              # a refused batch whose values span a SMALLER range than the valid batches
        elif kind == 'dtype64_small':
            da = (da % 4).astype('int64')
        elif kind == 'tplundeclared_last':
            da = da.copy(); da.reshape(-1)[-1] = 7       # the undeclared hypothesis value sits in the LAST guess column of the last row
        elif kind == 'traces_f16':
            tr = tr.astype('float16')                     # a numeric batch the compiled kernels have no signature for (refused at dispatch, after every explicit check)
        elif kind == 'traces_str':
            tr = tr.astype('U8')                          # an ndarray, but not a numeric one
        elif kind == 'notbuilt':
            pass                                         # a perfectly valid batch, refused because the templates are not built yet
        elif kind == 'tplundeclared':
            da = da.copy(); da.reshape(-1)[0] = 7        # a hypothesis value that is not a declared class
        elif kind == 'ndim':
            tr = tr.reshape(-1)                          # 1-D traces
        elif kind == 'tplwords':
            da = np.concatenate([da.reshape(k, -1)] * 2, axis=1)
        elif kind == 'memory':
            import psutil

            class _VM:
                available = 1
            orig = psutil.virtual_memory
            psutil.virtual_memory = lambda: _VM
            try:
                return self._call_update(obj, tr, da)
            finally:
                psutil.virtual_memory = orig
        else:
            raise ValueError(kind)
        if self.family == 'ttacc':
            return obj.update(tr)
        return obj.update(tr, da)

    # ----------------------------------------------------------------------------------------------------- oracle
    def reference(self, i):
        """Definition of the statistic on rows[:i] -> list of (ref array, defined mask, floor) aligned with _compute's tuple, or None."""
        if i in self._ref:
            return self._ref[i]
        X = self.X[:i]; Y = self.Y[:i].reshape(i, -1)
        f = self.fam
        out = None
        wshape = self.wdims if len(self.wdims) > 1 else (self.W,)
        if f in ('cpa', 'cpa_alt'):
            r, d = frac.pearson(X, Y); out = [(r, d, 1.0, frac.AMP['pearson'])]
        elif f == 'dpa':
            r, d = frac.dpa(X, Y); out = [(r, d, None, None)]
        elif f in PARTITIONED:
            cl = AUTO_VALUES if self.auto else CLASSES
            r, d = frac.partitioned(X, Y, cl, f); out = [(r, d, 1.0 if f == 'nicv' else None, frac.AMP[f])]
        elif f == 'mia':
            edges = mia_edges(self.kind) if not self.auto_edges else np.linspace(float(self.X.min()), float(self.X.max()), 5).tolist()
            r, d = frac.mia(X, Y, edges, AUTO_VALUES if self.auto else CLASSES); out = [(r, d, 1.0, None)]
        elif f == 'tplbuild':
            T, P, ok = frac.templates(X, Y[:, 0], TPLB_CLASSES)
            if ok:
                out = [(T, np.ones(T.shape, bool), None, None), (P, np.ones(P.shape, bool), None, np.full(P.shape, frac.AMP['templates'])), None]
            else:
                out = None
        elif f in ('tplstatic', 'tpldpa'):
            T, P, ok = frac.templates(self._bX, self._bv[:, 0], TPL_CLASSES)
            if f == 'tplstatic':
                picks = [[c] * i for c in range(len(TPL_CLASSES))]
            else:
                picks = [[TPL_CLASSES.index(int(v)) for v in Y[:, g]] for g in range(Y.shape[1])]
            cond = np.linalg.cond(P) if np.isfinite(P).all() else np.inf
            if ok and cond < 1e3:
                sc = frac.template_scores(X, T, P, picks)
                # a score is 10 - (mean squared distance): its rounding error scales with max(10, distance), not with the score itself
                out = [(sc, np.ones(sc.shape, bool), max(10.0, float(np.max(np.abs(sc - 10.0)))), None)]
            else:
                out = None
        elif f == 'ttacc':
            m, v = frac.mean_var(X)
            out = [(m, np.ones(m.shape, bool), None, None), (v, np.ones(v.shape, bool), None, frac.AMP['var'])]
        if out is not None and len(self.wdims) > 1 and f not in ('tplbuild', 'tplstatic', 'tpldpa', 'ttacc'):
            out = [(r.reshape(self.wdims + (-1,)), d.reshape(self.wdims + (-1,)), fl, None if a is None else a.reshape(self.wdims + (-1,))) for r, d, fl, a in out]
        self._ref[i] = out
        return out

    def oneshot(self, i):
        if i not in self._oneshot:
            saved = (self._last, self._last_was_c, self._cur_rows)
            obj = self.fresh()
            if self.family.endswith('0'):
                self.apply(obj, ('B',))
            self._set_clock(obj)
            self._call_update(obj, self.X[:i], self.Y[:i])
            self._oneshot[i] = self._compute(obj)
            self._last, self._last_was_c, self._cur_rows = saved
        return self._oneshot[i]

    def obs_key(self, obs):
        r = obs.get('res')
        return (obs['ev'][0], obs['exc'], obs['pt'], None if r is None else tuple(a.tobytes() for a in r))

    def _fp(self, what):
        return '%s/%s/%s' % (self.PROP, self.family, what)

    PROP = 'C01'

    def model_step(self, m, ev, obs):
        i, c, acc, alive, nr, built, rk = m
        v = []
        cfg = '%s tdt=%s prec=%s S=%d words=%s pool=%s N=%d auto=%s policy=%s' % (self.family, self.tdt, self.prec, self.S, list(self.wdims), self.kind, self.N, self.auto, self.policy)
        after = ('after-reject=%s/' % '+'.join(rk)) if rk else ''
        if rk:
            cfg += ' [after refused calls: %s]' % ', '.join(rk)
        if ev[0] == 'B':
            if obs['exc'] is not None:
                v.append((self._fp(after + 'build-raised'), '%s: build() raised %s: %s' % (cfg, obs['exc'], obs.get('exc_msg'))))
                return (i, 0, acc, False, nr, built, rk), v
            return (i, 0, acc, True, nr, True, rk), v
        if ev[0] == 'U':
            k = ev[1]
            if obs['exc'] is not None:
                v.append((self._fp(after + 'valid-update-raised'), '%s: valid update of %d rows after %d accepted rows raised %s: %s' % (cfg, k, i, obs['exc'], obs.get('exc_msg'))))
                return (i, 0, acc, False, nr, built, rk), v
            if obs['pt'] != i + k:
                v.append((self._fp(after + 'counter'), '%s: processed_traces=%d after %d accepted rows' % (cfg, obs['pt'], i + k)))
            return (i + k, 0, True, True, nr, built, rk), v
        if ev[0] == 'C':
            if i == 0:
                if obs['exc'] is None:
                    v.append((self._fp(after + 'compute-before-update-accepted'), '%s: compute() with no accepted trace returned a result' % cfg))
                elif obs['exc'] not in ('DistinguisherError', 'TTestError'):
                    v.append((self._fp(after + 'compute-before-update-wrong-exception'), '%s: compute() with no accepted trace raised %s: %s' % (cfg, obs['exc'], obs.get('exc_msg'))))
                if obs['pt'] != 0:
                    v.append((self._fp(after + 'counter'), '%s: processed_traces=%d after 0 accepted rows' % (cfg, obs['pt'])))
                return (i, c + 1, acc, True, nr, built, rk), v
            if obs['exc'] is not None:
                v.append((self._fp(after + 'compute-raised'), '%s: compute() after %d accepted rows raised %s: %s' % (cfg, i, obs['exc'], obs.get('exc_msg'))))
                return (i, c + 1, acc, False, nr, built, rk), v
            if obs['pt'] != i:
                v.append((self._fp(after + 'counter'), '%s: processed_traces=%d after %d accepted rows (at compute)' % (cfg, obs['pt'], i)))
            v += self._check_result(cfg, i, obs, after)
            return (i, c + 1, acc, True, nr, built, rk), v
        if ev[0] == 'R':
            kind = ev[1]
            if obs['exc'] is None:
                # the implementation ACCEPTED a call from the rejection menu: not a rejection, outside the property; stop this branch
                self.accepted_kinds.add(kind)
                return (i, 0, acc, False, nr + 1, built, rk), v
            self.raised_kinds.add(kind)
            if obs['pt'] != i:
                v.append((self._fp('reject=%s/counter' % kind), '%s: processed_traces=%d right after a refused %s call (%s: %s) with %d accepted rows'
                          % (cfg, obs['pt'], kind, obs['exc'], obs.get('exc_msg'), i)))
            return (i, 0, acc, True, nr + 1, built, rk + (kind,)), v
        raise ValueError(ev)

    def _check_result(self, cfg, i, obs, after=''):
        v = []
        res = obs['res']
        one = self.oneshot(i)
        ref = self.reference(i)
        names = {'tplbuild': ('templates', 'pooled_covariance', 'pooled_covariance_inv'), 'ttacc': ('mean', 'var')}.get(self.fam, ('result',))
        for j, got in enumerate(res):
            o = one[j]
            if got.shape != o.shape:
                v.append((self._fp(after + 'shape-vs-oneshot/' + names[j]), '%s: %s shape %s after %d rows, one-shot gives %s' % (cfg, names[j], got.shape, i, o.shape)))
                continue
            if self.exact and self.fam not in ('tplstatic', 'tpldpa'):      # matching scores are sums of non-representable Mahalanobis terms: rounding differs with the split
                if not np.array_equal(got, o, equal_nan=True):
                    v.append((self._fp(after + 'differs-from-oneshot/' + names[j]), '%s: %s after %d rows fed by this history differs from the one-batch result: got %s one-shot %s'
                              % (cfg, names[j], i, np.asarray(got).ravel()[:6].tolist(), np.asarray(o).ravel()[:6].tolist())))
            elif names[j] == 'pooled_covariance_inv' and not (np.isfinite(one[1]).all() and np.linalg.cond(one[1]) < 1e3):
                # the pseudo-inverse is discontinuous at rank-deficient / ill-conditioned covariances: rounding-level differences
                # of the covariance (non-representable pool) legitimately give very different inverses; counted, not compared
                self.counters['pinv_ill_conditioned_not_compared'] = self.counters.get('pinv_ill_conditioned_not_compared', 0) + 1
            else:
                with np.errstate(all='ignore'):
                    # non-representable pool: both results carry rounding amplified by the cancellation in their subtractive denominators;
                    # entries whose amplification x machine epsilon exceeds tol/64 are counted, not compared
                    keep = np.ones(np.shape(o), bool)
                    if ref is not None and ref[j] is not None and ref[j][3] is not None and np.shape(ref[j][3]) == np.shape(o):
                        keep = ~(np.nan_to_num(ref[j][3], nan=np.inf) * float(np.finfo(self.prec if self.family != 'mia' else 'float64').eps) > self.tol / 64)
                        self.counters['oneshot_ill_conditioned_not_compared'] = self.counters.get('oneshot_ill_conditioned_not_compared', 0) + int((~keep).sum())
                    nanbad = ((np.isnan(got) != np.isnan(o)) & keep).any()
                    sc = np.maximum(np.abs(o), np.nanmax(np.abs(o)) if np.isfinite(o).any() else 1.0)
                    err = np.where(keep, np.abs(got - o) / sc, 0.0)
                    rel = np.nanmax(err) if np.isfinite(o).any() and err.size else 0.0
                tol = self.tol * (256 if names[j] == 'pooled_covariance_inv' else 1)
                if nanbad or rel > tol:
                    v.append((self._fp(after + 'differs-from-oneshot/' + names[j]), '%s: %s after %d rows differs from the one-batch result beyond rounding (rel %.3g)' % (cfg, names[j], i, rel)))
                else:
                    self.max_err = max(self.max_err, float(rel))
            if ref is not None and ref[j] is not None:
                r, d, floor, amp = ref[j]
                if floor is None:
                    nz = np.abs(r[d]); floor = float(nz.max()) if nz.size and nz.max() > 0 else 1.0
                cmpd = compare(got, r, d, self.tol, floor)
                if 'shape' in cmpd:
                    v.append((self._fp(after + 'shape/' + names[j]), '%s: %s shape %s, definition gives %s' % (cfg, names[j], got.shape, r.shape)))
                    continue
                if amp is not None:
                    # entries whose subtractive denominator amplifies rounding beyond tol/8 are not compared with the definition
                    ill = d & (np.nan_to_num(amp, nan=np.inf) * float(np.finfo(self.prec if self.family != 'mia' else 'float64').eps) > self.tol / 8)
                    if ill.any():
                        self.counters['ill_conditioned_not_compared'] = self.counters.get('ill_conditioned_not_compared', 0) + int(ill.sum())
                        for kind in ('defined_bad', 'value_bad'):
                            cmpd[kind] = cmpd[kind] & ~ill
                if not self.exact:
                    # "an undefined entry is NaN, never infinite or finite" is stated for integer-valued inputs only: with non-representable
                    # traces a zero variance comes out as rounding noise, so the implementation's value there is not constrained
                    cmpd['undefined_bad'] = cmpd['undefined_bad'] & False
                for kind in ('undefined_bad', 'defined_bad', 'value_bad'):
                    if cmpd[kind].any():
                        idx = tuple(int(t) for t in np.argwhere(cmpd[kind])[0])
                        v.append((self._fp(after + '%s/%s' % (kind, names[j])), '%s: %s[%s]=%r after %d rows, definition gives %r' % (cfg, names[j], idx, float(got[idx]), i, float(r[idx]))))
                self.max_err = max(self.max_err, cmpd['max_err'])
                self.counters['compared_with_definition'] = self.counters.get('compared_with_definition', 0) + 1
            else:
                self.counters['definition_undefined_not_compared'] = self.counters.get('definition_undefined_not_compared', 0) + 1
        if obs.get('same_as_prev') is False:
            v.append((self._fp(after + 'compute-twice-differs'), '%s: two consecutive compute() calls after %d rows returned different values' % (cfg, i)))
        return v


# ---------------------------------------------------------------------------------------------------------
# shared driver

def pools_for(tdt, tier):
    k = np.dtype(tdt).kind
    if k == 'u':
        return ['exact', 'adversarial']
    if k == 'i':
        return ['exact', 'signed', 'adversarial'] if tier == 'thorough' else ['signed', 'adversarial']
    return ['exact', 'dyadic', 'float', 'adversarial'] if tier == 'thorough' else ['dyadic', 'float', 'adversarial']


GROUPS = {
    'moments': ('cpa', 'cpa_alt', 'dpa'),
    'partitioned': ('anova', 'nicv', 'snr'),
    'mia': ('mia',),
    'tplbuild': ('tplbuild',),
    'tplmatch': ('tplstatic', 'tpldpa'),
    'ttacc': ('ttacc',),
}


def explore(col, system, max_depth, max_dev, prop):
    """Run the explorer on one system, fold its coverage and violations into the collector."""
    from mc.explorer import Explorer
    system.PROP = prop
    rec = None
    if system.family in PARTITIONED or system.family in ('tplbuild',):
        from scared.distinguishers import partitioned as P, template as T
        rec = env.install_recorder(P.PartitionedDistinguisherMixin if system.family in PARTITIONED else T._TemplateBuildDistinguisherMixin)
        rec.ran.clear()
    e = Explorer(system, max_depth, max_dev).run()
    rep = e.report()
    col.states += rep['states']; col.transitions += rep['transitions']; col.evaluations += rep['histories_represented']
    col.validated += rep['transitions']
    col.nontrivial += rep['complete_histories']
    col.count('histories_represented', rep['histories_represented']); col.count('complete_histories', rep['complete_histories'])
    col.count('replayed_events', rep['replayed_events']); col.count('systems', 1)
    for k, n in system.counters.items(): col.count(k, n)
    col.outcomes.update((system.family, system.tdt, system.prec, system.kind, system.S, system.wdims, k) for k in e.observations)
    col.err('%s/%s' % (system.family, system.prec), system.max_err)
    if rep['capped']:
        col.caps_hit.append('max_states'); col.exhaustive = False
    if rec is not None:
        for k in set(rec.ran): col.count('kernel%d_runs' % k, rec.ran.count(k))
    for fp, msg, hist in e.violations:
        col.violation(fp, msg, {'system': system.describe(), 'history': [list(ev) for ev in hist], 'max_rejections': system.max_rej,
                                'rejection_menu': list(system.rejections)}, unit_test=unit_test_text(system, hist))
    col.sample({'system': system.describe(), 'explorer': rep,
                'one_history': [list(ev) for ev in max((n[0] for n in e.nodes), key=len)]}, limit=2)
    return e


def unit_test_text(system, hist):
    d = system.describe()
    return ('# replay without the explorer (PYTHONPATH=/repo:/verif):\n'
            'from checks.dsys import DistSystem\n'
            's = DistSystem(%r, %r, %r, %d, %r, %r, %d, %d, auto=%r, policy=%r, rejections=%r, max_rej=%d, auto_edges=%r); s.PROP = %r\n'
            'obj = s.fresh(); m = s.model_init()\n'
            'for ev in %r:\n    obs = s.apply(obj, ev); m, viol = s.model_step(m, ev, obs); assert not viol, viol\n'
            % (d['family'], d['trace_dtype'], d['precision'], d['S'], tuple(d['word_dims']), d['pool'], d['N'], system.seed, d['auto_classes'], d['clock_policy'],
               tuple(system.rejections), system.max_rej, system.auto_edges, system.PROP, [tuple(ev) for ev in hist]))


def replay_case(col, case, prop):
    """Re-execute one recorded history (replay file) and report what the oracle says now."""
    d = case['system']
    s = DistSystem(d['family'], d['trace_dtype'], d['precision'], d['S'], tuple(d['word_dims']), d['pool'], d['N'], case.get('seed', 0), auto=d['auto_classes'],
                   policy=d['clock_policy'], rejections=tuple(case.get('rejection_menu', ())), max_rej=case.get('max_rejections', 0), auto_edges=d.get('auto_edges', False))
    s.PROP = prop
    obj = s.fresh(); m = s.model_init()
    hist = []
    for ev in case['history']:
        ev = tuple(ev); hist.append(ev)
        obs = s.apply(obj, ev); m, viol = s.model_step(m, ev, obs)
        col.transitions += 1
        for fp, msg in viol:
            col.violation(fp, msg, dict(case), unit_test=unit_test_text(s, hist))
    col.evaluations += 1; col.states += len(hist) + 1
