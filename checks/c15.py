"""C15 - leakage models and discriminants compute their definitions on every value (E3, complete domains)."""
PROPERTY = 'C15'
LEVEL = 'model_checking'
ENGINE = 'E3'
RULE = ('complete domains: HammingWeight on all 256 uint8 and all 65536 uint16 values; uint32/uint64 lane-complete (every byte lane through all 256 values with the other lanes all-zero and '
        'all-one; every pair of lanes through a 16x16 grid) + seeded pool; nb_words 1..4 x every axis x every shape with ndim<=3 and dims<=4; Monobit(b) for every accepted b (0..8) on all '
        'uint8/uint16 values and shapes/axes; Value on all dtypes; discriminants on EVERY array over the alphabet {NaN,-2,-0.5,0,1,3} of shapes (2,3),(3,2) and (over 4 letters) (2,2,2), x every axis; '
        'a case = one (function, configuration, input value/array); non-trivial = input is not all-zero / contains a non-NaN entry')
ASSUMPTIONS = ['numpy/numba are trusted', 'uint32/uint64: lane-complete, not the full 2^32 / 2^64 word space']
TRUSTED = ['int.bit_count and a mask-based pure reduction as references']
TECHNIQUE = 'exhaustive enumeration of complete value domains (all uint8/uint16 words, lane-complete 32/64-bit, all small NaN-bearing arrays) on the real models/discriminants against definitions'
LEVEL_TEXT = ('Every uint8 and uint16 value, every byte-lane value of 32/64-bit words, every nb_words/axis/shape combination up to 4x4x4, every Monobit bit the constructor accepts, and every '
              'array over a 6-letter NaN-bearing alphabet for the five discriminants are executed on the real code and compared with the definitions (popcount, bit extraction, NaN-skipping reduction).')
LEVEL_NOTE = 'Trusted: numpy, numba vectorize. 32/64-bit words are covered lane by lane plus pairs of lanes, not as a product.'
DESIGN_REF = 'DESIGN.md section 3, C15'


def bound(tier):
    return {'uint8': 'all', 'uint16': 'all', 'uint32/64': 'lane-complete', 'discriminant_arrays': '6^6 + 6^6 + 4^8'}


def shards(tier, seed):
    return [{'name': n, 'kind': n, 'cost': c} for n, c in (('hw-values', 5), ('hw-shapes', 5), ('monobit-value', 5), ('discriminants', 10))]


def run_shard(shard, ctx):
    import numpy as np
    from mc.common import Collector
    col = Collector()
    {'hw-values': _hw_values, 'hw-shapes': _hw_shapes, 'monobit-value': _monobit, 'discriminants': _disc}[shard['kind']](ctx, col, np)
    return col.result()


def _pc(vals):
    return [int(v).bit_count() for v in vals]


def _hw_values(ctx, col, np):
    import scared
    from mc.common import rng_for

    def check(dt, vals, label):
        arr = np.array(vals, dtype=dt)
        got = scared.HammingWeight(expected_dtype=dt)(arr[None, :])[0]
        exp = np.array(_pc(vals))
        col.transitions += 1; col.evaluations += len(vals); col.states += len(vals); col.nontrivial += int((arr != 0).sum())
        if got.shape != exp.shape or not np.array_equal(got, exp):
            bad = got != exp; j = int(np.argmax(bad))
            col.violations_n('C15/hw/%s' % dt, int(bad.sum()), 'HammingWeight(%s)(%#x) = %d, popcount is %d (%s)' % (dt, int(vals[j]), int(got[j]), int(exp[j]), label), {'dtype': dt, 'value': int(vals[j])})
    check('uint8', list(range(256)), 'all values')
    check('uint16', list(range(65536)), 'all values')
    rng = rng_for(ctx['seed'], 'c15')
    for dt, nb in (('uint32', 4), ('uint64', 8)):
        full = (1 << (8 * nb)) - 1
        for lane in range(nb):
            for bg in (0, full):
                check(dt, [(bg & ~(0xff << (8 * lane))) | (v << (8 * lane)) for v in range(256)], 'lane %d bg %#x' % (lane, bg))
        grid = [0, 1, 2, 3, 0x0f, 0x10, 0x33, 0x55, 0x7f, 0x80, 0x81, 0xaa, 0xc3, 0xf0, 0xfe, 0xff]
        for l1 in range(nb):
            for l2 in range(l1 + 1, nb):
                check(dt, [(a << (8 * l1)) | (b << (8 * l2)) for a in grid for b in grid], 'lanes %d,%d' % (l1, l2))
                check(dt, [full ^ ((a << (8 * l1)) | (b << (8 * l2))) for a in grid for b in grid], 'lanes %d,%d complemented' % (l1, l2))
        check(dt, [int(x) for x in rng.randint(0, 1 << 31, 4096, dtype=np.int64)] if nb == 4 else [int(a) << 33 | int(b) for a, b in zip(rng.randint(0, 1 << 31, 4096, dtype=np.int64), rng.randint(0, 1 << 33, 4096, dtype=np.int64))], 'seeded')
        check(dt, [full, full - 1, 1 << (8 * nb - 1), (1 << (8 * nb - 1)) - 1, 0], 'extremes')
    # wrong dtype must be refused, not silently converted
    for dt_model, dt_data in (('uint8', 'uint16'), ('uint16', 'uint8'), ('uint8', 'int8')):
        col.evaluations += 1; col.states += 1; col.nontrivial += 1
        try:
            scared.HammingWeight(expected_dtype=dt_model)(np.zeros((2, 2), dtype=dt_data))
            col.violation('C15/hw/dtype-mismatch-accepted', 'HammingWeight(expected_dtype=%s) accepted %s data' % (dt_model, dt_data), {})
        except ValueError:
            pass
    col.sample({'function': 'HammingWeight', 'domain': 'all uint16', 'example': [0xbeef, 13]}, limit=1)


def _hw_shapes(ctx, col, np):
    import itertools
    import scared
    pc8 = np.array(_pc(range(256)))
    for ndim in (1, 2, 3):
        for shape in itertools.product([1, 2, 3, 4], repeat=ndim):
            a = ((np.arange(int(np.prod(shape))).reshape(shape) * 37 + 11) % 256).astype('uint8')
            for ax in list(range(ndim)) + [-1]:
                axp = ax % ndim
                for k in (1, 2, 3, 4):
                    case = {'shape': list(shape), 'axis': ax, 'nb_words': k}
                    col.evaluations += 1; col.states += 1; col.transitions += 1; col.nontrivial += 1
                    if a.shape[axp] < k:
                        try:
                            scared.HammingWeight(nb_words=k)(a, axis=ax)
                            col.violation('C15/hw/nb_words-too-large-accepted', 'nb_words=%d accepted on shape %s axis %d' % (k, shape, ax), case)
                        except ValueError:
                            pass
                        continue
                    try:
                        got = scared.HammingWeight(nb_words=k)(a, axis=ax)
                    except Exception as e:
                        col.violation('C15/hw/nb_words/raised', '%s: %s' % (type(e).__name__, e), case); continue
                    h = pc8[a]; g = a.shape[axp] // k
                    exp = np.stack([np.take(h, range(i * k, (i + 1) * k), axis=axp).sum(axis=axp) for i in range(g)], axis=axp)
                    if got.shape != exp.shape or not np.array_equal(got, exp):
                        col.violation('C15/hw/nb_words', 'HammingWeight(nb_words=%d)(shape %s, axis=%d): got shape %s, expected %s; values %s' % (k, shape, ax, got.shape, exp.shape,
                                      'equal' if got.shape == exp.shape and np.array_equal(got, exp) else 'differ'), case)
    # 16-bit words grouped
    a = (np.arange(24).reshape(2, 3, 4) * 2731 % 65536).astype('uint16')
    pc16 = np.array(_pc(range(65536)))
    for ax in (0, 1, 2, -1):
        for k in (1, 2):
            axp = ax % 3
            try:
                got = scared.HammingWeight(nb_words=k, expected_dtype='uint16')(a, axis=ax)
            except Exception as e:
                col.evaluations += 1
                col.violation('C15/hw/nb_words/raised', 'uint16 shape (2,3,4) axis %d nb_words %d: %s: %s' % (ax, k, type(e).__name__, e), {'axis': ax, 'nb_words': k}); continue
            h = pc16[a]; g = a.shape[axp] // k
            exp = np.stack([np.take(h, range(i * k, (i + 1) * k), axis=axp).sum(axis=axp) for i in range(g)], axis=axp)
            col.evaluations += 1; col.states += 1; col.transitions += 1; col.nontrivial += 1
            if got.shape != exp.shape or not np.array_equal(got, exp):
                col.violation('C15/hw/nb_words', 'uint16 grouping mismatch axis %d k %d' % (ax, k), {'axis': ax, 'nb_words': k})
    # memory layout is not part of the value of an array: Fortran-ordered arrays, transposed views and strided views of every width
    for dt in ('uint8', 'uint16', 'uint32', 'uint64'):
        bits = np.dtype(dt).itemsize * 8
        base = ((np.arange(60, dtype='uint64') * 0x9E3779B97F4A7C15 + 0x1234567) % (2 ** bits if bits < 64 else 2 ** 64 - 1)).astype(dt).reshape(3, 4, 5)
        views = {'fortran': np.asfortranarray(base), 'transposed': base.transpose(2, 0, 1), 'strided': base[:, ::2, ::3], '2d-T': base[0].T}
        for vn, a in views.items():
            exp_w = np.array([bin(int(v)).count('1') for v in a.reshape(-1)], dtype='int64').reshape(a.shape)
            for k in (1, 2):
                for ax in range(a.ndim):
                    if a.shape[ax] < k: continue
                    col.evaluations += 1; col.states += 1; col.transitions += 1; col.nontrivial += 1
                    case = {'dtype': dt, 'view': vn, 'axis': ax, 'nb_words': k}
                    try:
                        got = scared.HammingWeight(nb_words=k, expected_dtype=dt)(a, axis=ax)
                    except Exception as e:
                        col.violation('C15/hw/layout/raised', 'HammingWeight(nb_words=%d, %s)(%s view, axis=%d): %s: %s' % (k, dt, vn, ax, type(e).__name__, e), case); continue
                    g = a.shape[ax] // k
                    exp = np.stack([np.take(exp_w, range(i * k, (i + 1) * k), axis=ax).sum(axis=ax) for i in range(g)], axis=ax)
                    if got.shape != exp.shape or not np.array_equal(got, exp):
                        col.violation('C15/hw/layout', 'HammingWeight(nb_words=%d, expected_dtype=%s) on a %s view (axis %d): %s' % (k, dt, vn, ax, 'shape %s expected %s' % (got.shape, exp.shape) if got.shape != exp.shape else 'values are not the popcounts of the elements at the same positions'), case)
    col.sample({'function': 'HammingWeight(nb_words=k)', 'shape': [2, 3, 4], 'axis': 1, 'nb_words': 2}, limit=1)


def _monobit(ctx, col, np):
    import scared
    for b in range(0, 9):
        try:
            m = scared.Monobit(b)
        except Exception as e:
            col.violation('C15/monobit/ctor', 'Monobit(%d) refused: %s' % (b, e), {'bit': b}); continue
        for dt, n in (('uint8', 256), ('uint16', 65536)):
            vals = np.arange(n, dtype=dt)
            exp = ((np.arange(n) >> b) & 1).astype('uint8')
            for shape, ax in (((1, n), -1), ((n, 1), 0), ((n // 16, 4, 4), 1)):
                case = {'bit': b, 'dtype': dt, 'shape': list(shape), 'axis': ax}
                col.evaluations += n; col.states += n; col.transitions += 1; col.nontrivial += n - 1
                try:
                    got = m(vals.reshape(shape), axis=ax)
                except Exception as e:
                    col.violation('C15/monobit/raised/bit%d-%s' % (b, dt), 'Monobit(%d) on %s data raises %s: %s (bit %d of every %s value is %s)'
                                  % (b, dt, type(e).__name__, str(e)[:100], b, dt, '0' if b >= 8 and dt == 'uint8' else 'defined'), case,
                                  unit_test="import numpy as np, scared\ndef test_replay():\n    assert (scared.Monobit(%d)(np.arange(256, dtype=%r)[None, :]) == ((np.arange(256) >> %d) & 1)).all()\n" % (b, dt, b))
                    continue
                if got.shape != shape or not np.array_equal(got.reshape(-1), exp):
                    col.violation('C15/monobit/value', 'Monobit(%d) wrong on %s shape %s' % (b, dt, shape), case)
    for bad in (-1, 9):
        col.evaluations += 1; col.states += 1; col.nontrivial += 1
        try:
            scared.Monobit(bad); col.violation('C15/monobit/ctor-accepts-out-of-range', 'Monobit(%d) accepted' % bad, {'bit': bad})
        except ValueError:
            pass
    v = scared.Value()
    for dt in ('uint8', 'int16', 'uint32', 'int64', 'float32', 'float64', 'bool'):
        a = (np.arange(24).reshape(2, 3, 4) % 2).astype(dt) if dt == 'bool' else (np.arange(24).reshape(2, 3, 4) * 7 - 30).astype(dt)
        a0 = a.copy()
        for ax in (0, 1, 2, -1):
            got = v(a, axis=ax); col.evaluations += 1; col.states += 1; col.transitions += 1; col.nontrivial += 1
            if got.shape != a0.shape or got.dtype != a0.dtype or not np.array_equal(got, a0):
                col.violation('C15/value', 'Value() changed the data (dtype %s axis %d)' % (dt, ax), {'dtype': dt, 'axis': ax})
    col.sample({'function': 'Monobit(b)', 'bits': list(range(9)), 'domains': ['all uint8', 'all uint16']}, limit=1)


def _disc(ctx, col, np):
    import itertools
    import scared
    nan = float('nan')
    funcs = {'nanmax': (scared.nanmax, 'max', lambda x: x), 'maxabs': (scared.maxabs, 'max', np.abs), 'opposite_min': (scared.opposite_min, 'max', lambda x: -x),
             'nansum': (scared.nansum, 'sum', lambda x: x), 'abssum': (scared.abssum, 'sum', np.abs)}

    def ref(data, axis, mode, tf):
        x = tf(data); valid = ~np.isnan(data)
        if mode == 'sum':
            return np.where(valid, x, 0.0).sum(axis=axis)
        m = np.where(valid, x, -np.inf).max(axis=axis)
        return np.where(valid.any(axis=axis), m, np.nan)
    for shape, alpha in (((2, 3), [nan, -2, -0.5, 0, 1, 3]), ((3, 2), [nan, -2, -0.5, 0, 1, 3]), ((2, 2, 2), [nan, -2, 0, 3])):
        ncell = int(np.prod(shape))
        allarr = np.array(list(itertools.product(alpha, repeat=ncell)), dtype='float64').reshape((-1,) + shape)     # (M, *shape)
        M = allarr.shape[0]
        nontriv = int((~np.isnan(allarr)).reshape(M, -1).any(axis=1).sum())
        for pack_at in range(len(shape) + 1):              # position of the packing axis: every array x every axis, for every embedding
            data = np.moveaxis(allarr, 0, pack_at)
            for ax in range(data.ndim):
                if ax == pack_at: continue
                for dt in ('float64', 'float32'):
                    d = data.astype(dt); d0 = d.copy()
                    for name, (f, mode, tf) in funcs.items():
                        for axarg in ((ax, -1) if ax == data.ndim - 1 else (ax,)):
                            case = {'function': name, 'shape': list(shape), 'axis': ax, 'dtype': dt}
                            col.evaluations += M; col.states += M; col.transitions += 1; col.nontrivial += nontriv
                            try:
                                got = f(d, axis=axarg)
                            except Exception as e:
                                col.violation('C15/disc/%s/raised' % name, '%s: %s' % (type(e).__name__, e), case); continue
                            exp = ref(d.astype('float64'), ax, mode, tf)
                            if got.shape != exp.shape:
                                col.violation('C15/disc/%s/shape' % name, 'shape %s expected %s' % (got.shape, exp.shape), case); continue
                            same = (np.isnan(got) & np.isnan(exp)) | (got == exp)
                            if not same.all():
                                idx = tuple(int(i) for i in np.argwhere(~same)[0])
                                sl = np.take(np.moveaxis(d, ax, -1).reshape(-1, d.shape[ax]), np.ravel_multi_index(idx, exp.shape), axis=0)
                                col.violations_n('C15/disc/%s' % name, int((~same).sum()), '%s over %s = %r, definition gives %r' % (name, sl.tolist(), float(got[idx]), float(exp[idx])), dict(case, slice=sl.tolist()))
                            if not np.array_equal(d, d0, equal_nan=True):
                                col.violation('C15/disc/%s/argument-modified' % name, 'input modified', case); d = d0.copy()
    col.sample({'function': 'nanmax/maxabs/opposite_min/nansum/abssum', 'array': [[nan, -2.0, 3.0], [0.0, nan, nan]], 'axis': 1}, limit=1)
