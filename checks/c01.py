"""C01 - incremental distinguishers are invariant to batch splitting; compute() is read-only and idempotent (E1)."""
PROPERTY = 'C01'
LEVEL = 'model_checking'
ENGINE = 'E1'
RULE = ('explicit-state BFS over update/compute histories of real distinguisher objects: events U(k) = update with the next k rows (k = 1..remaining) and C = compute (at most two in a row, also '
        'before the first update); EVERY history over N rows (all 2^(N-1) ordered splits x every placement of 0/1/2 computes) is represented, states merged on the digest of the complete object state; '
        'per configuration (family x trace dtype x precision x (samples, word shape) x value pool x class mode x kernel-clock policy). evaluations = histories represented by the explored graph, '
        'distinct_nontrivial = complete histories (all rows consumed and two final computes)')
ASSUMPTIONS = ['numpy/numba trusted', 'N <= 6 (quick) / 8 (thorough) rows, <= 2 consecutive computes', 'bit-identity is required on exactly representable pools (small integers, dyadic fractions); '
               'on the float pool results must agree within 2^-12 / 2^-36 of the largest magnitude', 'automatic class sets: row 0 carries the maximum (class set and MIA edges are frozen by the first batch by design)',
               'definition comparisons skip entries whose subtractive denominator amplifies rounding beyond tol/8 (counted as ill_conditioned_not_compared)',
               'template covariance is compared with the definition only where every declared class has >= 2 building traces']
TRUSTED = ['mc/refs/frac.py (exact rational definitions, self-tested against numpy/statistics)', 'mc/explorer.py state merging on the complete vars() digest', 'LUT memo', 'scripted clock (kernel choice is a function of the object state)']
TECHNIQUE = 'explicit-state breadth-first exploration of all update/compute histories on the real objects (state digests, replay from fresh objects) with an exact reference model and a one-batch differential oracle in lock-step'
LEVEL_TEXT = ('Every ordered split of N<=6 (quick) / 8 (thorough) rows into non-empty batches, with every placement of up to two consecutive compute() calls, is executed on real CPA, alternative CPA, DPA, '
              'ANOVA, NICV, SNR, MIA, template-build, TemplateAttack, TemplateDPAAttack and t-test accumulator objects; every compute must equal the definition on exactly the rows consumed, be '
              'bit-identical to the one-batch result on exact pools, and equal its predecessor when repeated; processed_traces must equal the rows consumed after every event.')
LEVEL_NOTE = 'Trusted: numpy, numba, references, digest-based state merging. Bound: N<=8 rows, <=2 consecutive computes, S<=3 samples, <=4 words.'
DESIGN_REF = 'DESIGN.md section 3, C01'
UNIT_TEST_HINT = 'see unit_test in the replay file: DistSystem(...).apply/model_step over the recorded history'


def bound(tier):
    return {'N': 6 if tier == 'quick' else 8, 'max_consecutive_computes': 2, 'shapes': [[1, [1]], [3, [2]], [2, [2, 2]]]}


def _tdts(tier):
    return ['uint8', 'float32'] if tier == 'quick' else ['uint8', 'int16', 'float32', 'float64']


def shards(tier, seed):
    out = []
    for grp in ('moments', 'partitioned', 'mia', 'tplbuild', 'tplmatch', 'ttacc'):
        for tdt in _tdts(tier):
            for prec in ('float32', 'float64'):
                cost = {'moments': 2, 'partitioned': 10, 'mia': 3, 'tplbuild': 14, 'tplmatch': 12, 'ttacc': 2}[grp]
                out.append({'name': '%s-%s-%s' % (grp, tdt, prec), 'group': grp, 'tdt': tdt, 'prec': prec, 'cost': cost})
    return out


def configs(shard, tier):
    """-> list of DistSystem keyword dicts for this shard."""
    from checks.dsys import GROUPS, pools_for
    N = 6 if tier == 'quick' else 8
    out = []
    grp, tdt, prec = shard['group'], shard['tdt'], shard['prec']
    for fam in GROUPS[grp]:
        p = prec
        if fam == 'mia':
            p = 'uint32' if prec == 'float32' else 'float64'
        shapes = [(1, (1,)), (3, (2,)), (2, (2, 2))]
        if fam == 'tplbuild': shapes = [(1, (1,)), (2, (1,)), (3, (1,))]
        if fam == 'tplstatic': shapes = [(1, (3,)), (2, (3,)), (3, (3,))]
        if fam == 'tpldpa': shapes = [(1, (2,)), (2, (3,)), (3, (1,))]
        if fam == 'ttacc': shapes = [(1, (1,)), (3, (1,))]
        for si, (S, wd) in enumerate(shapes):
            for kind in pools_for(tdt, tier):
                if tier == 'quick' and si == 2 and kind == 'adversarial': continue
                modes = [(False, 'alt')]
                if fam in ('anova', 'nicv', 'snr', 'mia') and si == 1: modes.append((True, 'alt'))
                if fam in ('anova', 'nicv', 'snr', 'tplbuild') and (tier == 'thorough' or (si == 0 and kind != 'float')): modes += [(False, 'k1'), (False, 'k2')]
                for auto, pol in modes:
                    n = N
                    if fam == 'tplbuild' and tier == 'quick': n = 7
                    out.append(dict(family=fam, tdt=tdt, prec=p, S=S, wdims=wd, pool_kind=kind, N=n, auto=auto, policy=pol))
    return out


def run_shard(shard, ctx):
    from mc.common import Collector
    from mc.refs import frac
    from checks import dsys
    col = Collector()
    if shard.get('replay_case') is not None:
        dsys.replay_case(col, shard['replay_case'], PROPERTY)
        return col.result()
    frac.selftest()
    tier, seed = ctx['tier'], ctx['seed']
    for kw in configs(shard, tier):
        s = dsys.DistSystem(seed=seed, **kw)
        e = dsys.explore(col, s, max_depth=3 * kw['N'] + 4, max_dev=0, prop=PROPERTY)
        n = kw['N']
        col.guard(e.states >= 3 * n + 1, 'vacuity: %s explored only %d states' % (s.describe(), e.states))
        col.guard(e.terminal_histories >= 2 ** (n - 1), 'vacuity: %s only %d complete histories' % (s.describe(), e.terminal_histories))
    col.guard(col.counters.get('compared_with_definition', 0) > 0, 'vacuity: no compute was compared with the definition')
    if shard['group'] in ('partitioned', 'tplbuild'):
        col.guard(col.counters.get('kernel1_runs', 0) > 0 and col.counters.get('kernel2_runs', 0) > 0, 'vacuity: both accumulation kernels must be exercised (%s)' % col.counters)
    return col.result()


def finalize(shards_, results, tier, seed):
    return {'histories_represented': sum(r.get('counters', {}).get('histories_represented', 0) for r in results),
            'complete_histories': sum(r.get('counters', {}).get('complete_histories', 0) for r in results),
            'systems': sum(r.get('counters', {}).get('systems', 0) for r in results)}
