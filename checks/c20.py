"""C20 - Synchronizer output is exactly the accepted traces, in order, with their own metadata (E1 over fault sequences).

The environment of Synchronizer.run() is the user function's answer for each trace: A (return data), R (raise
ResynchroError), X (raise another exception), N (return None).  Every answer sequence up to a length is executed on the
real Synchronizer writing a real ETS file; the user function is also the observation point of the run loop (counters and
the trace handed over are checked at every call).  The reference model is a plain list.
"""
PROPERTY = 'C20'
LEVEL = 'model_checking'
ENGINE = 'E1'
RULE = ('exhaustive enumeration of user-function answer sequences: every sequence over {A,R,N,X}^n for n<=5 (quick) / 6 (thorough) and over {A,R,N}^n for n=6 (quick) / 7,8 (thorough), the run-length family '
        'A^a F^f A^b (a,b in 0..2, f in {1,7,8,9,15,16,17,31,32,33,40}, F in R/N/X) crossing the consecutive-error warning thresholds, every sequence of length <=3 (quick) / 4 (thorough) on an output file that '
        'already exists (overwrite=True and overwrite=False); output given as str and as Path, returned data of the input length / shorter / longer / another dtype, extra kwargs forwarded; histories check() -> run() on one object; each '
        'execution followed by a second run() on the same object. A case = one (answer sequence, variant); a state = one (trace index, accepted so far, consecutive failures) observed at a call of the user function; '
        'non-trivial = at least one accepted and one refused trace')
ASSUMPTIONS = ['estraces (ETS writer/reader, RAM reader) and h5py are trusted', 'returned data has one constant length/dtype per run (an ETS file stores a rectangular array)', 'n <= 8 traces except the run-length family (<= 44)']
TRUSTED = ['the list model in this file', 'estraces']
TECHNIQUE = 'exhaustive enumeration of accept/raise/None answer sequences (fault sequences) on the real Synchronizer with per-call state observation, list reference model in lock-step'
LEVEL_TEXT = ('Every accept / ResynchroError / other exception / None pattern of the user function over up to 6 (quick) / 8 (thorough) traces, plus long failure runs and pre-existing output files, is executed on the real '
              'Synchronizer; at every call the counters and the trace handed over are checked, after run() the output set must hold exactly the returned data of the accepted traces in input order with their own '
              'metadata, the counters must equal inputs / accepted (also when nothing was accepted), and a second run() must be refused and change nothing.')
LEVEL_NOTE = 'Trusted: estraces/h5py. Bound: n<=8 (44 for run-length cases), one data shape per run.'
DESIGN_REF = 'DESIGN.md section 3, C20'
UNIT_TEST_HINT = 'from checks.c20 import execute; print(execute(case, tmpdir))  # case from the replay file'

RUNLENS = [1, 7, 8, 9, 15, 16, 17, 31, 32, 33, 40]


def bound(tier):
    return {'alphabet4_max_n': 5 if tier == 'quick' else 6, 'alphabet3_n': [6] if tier == 'quick' else [7, 8], 'preexisting_max_n': 3 if tier == 'quick' else 4, 'run_lengths': RUNLENS}


def _cases(tier):
    import itertools
    out = []
    outs = ('str', 'path'); datas = ('same', 'short', 'float', 'long')
    n4 = 5 if tier == 'quick' else 6
    k = 0
    for n in range(1, n4 + 1):
        for seq in itertools.product('ARNX', repeat=n):
            seq = ''.join(seq)
            if n <= 3:
                for o in outs:
                    for d in datas:
                        out.append({'answers': seq, 'out': o, 'data': d, 'pre': 'fresh', 'kw': False})
            else:
                out.append({'answers': seq, 'out': outs[k % 2], 'data': datas[(k // 2) % 4], 'pre': 'fresh', 'kw': k % 3 == 0}); k += 1
    for n in ([6] if tier == 'quick' else [7, 8]):
        for seq in itertools.product('ARN', repeat=n):
            out.append({'answers': ''.join(seq), 'out': outs[k % 2], 'data': datas[(k // 2) % 4], 'pre': 'fresh', 'kw': k % 3 == 0}); k += 1
    for a in range(3):
        for b in range(3):
            for f in RUNLENS:
                for F in 'RNX':
                    out.append({'answers': 'A' * a + F * f + 'A' * b, 'out': outs[k % 2], 'data': datas[(k // 2) % 4], 'pre': 'fresh', 'kw': False}); k += 1
                out.append({'answers': 'A' * a + ('RNX' * f)[:f] + 'A' * b, 'out': 'str', 'data': 'same', 'pre': 'fresh', 'kw': False})
    # results whose length differs from trace to trace (6 / 4 / 2 samples by trace index), every accept/reject pattern up to 5 traces
    for n in range(1, 6):
        for seq in itertools.product('ARN', repeat=n):
            out.append({'answers': ''.join(seq), 'out': outs[k % 2], 'data': 'varying', 'pre': 'fresh', 'kw': False}); k += 1
    # history: check() (the documented dry run on randomly picked traces) before run() on the same object
    for n in range(1, (4 if tier == 'quick' else 5) + 1):
        for seq in itertools.product('ARN', repeat=n):
            for nb in (1, 3):
                out.append({'answers': ''.join(seq), 'out': outs[k % 2], 'data': datas[(k // 2) % 4], 'pre': 'fresh', 'kw': False, 'check_first': nb}); k += 1
    for n in range(1, (3 if tier == 'quick' else 4) + 1):
        for seq in itertools.product('ARN', repeat=n):
            for pre in ('exists_overwrite', 'exists_keep'):
                for o in outs:
                    out.append({'answers': ''.join(seq), 'out': o, 'data': ('same', 'float', 'short')[k % 3], 'pre': pre, 'kw': False}); k += 1
    return out


def shards(tier, seed):
    n = len(_cases(tier))
    k = 32
    return [{'name': 'part-%02d' % i, 'part': i, 'parts': k, 'cost': 1} for i in range(k)]


def _pool(n, seed):
    import numpy as np
    from mc.common import rng_for
    rng = rng_for(seed, 'c20', n)
    tr = rng.randint(0, 200, (n, 6)).astype('uint8'); tr[:, 0] = np.arange(n)          # sample 0 carries the trace index
    pt = rng.randint(0, 256, (n, 4)).astype('uint8'); pt[:, 0] = np.arange(n)
    return tr, pt


def _data(tr_row, i, kind, scale):
    import numpy as np
    if kind == 'same': return (tr_row.astype('uint8') // 2 * scale + 1).astype('uint8')
    if kind == 'short': return tr_row[1:4].astype('uint8') * scale
    if kind == 'long': return np.concatenate([tr_row, tr_row[:3]]).astype('int16') * scale - 7
    if kind == 'float': return tr_row.astype('float32') * 0.5 * scale + i
    if kind == 'varying': return (tr_row[:6 - 2 * (i % 3)].astype('uint8') // 2 * scale + 1).astype('uint8')          # 6, 4 or 2 samples depending on the trace, never a zero
    raise ValueError(kind)


def execute(case, tmpdir, seed=0):
    """Run one case on the real Synchronizer.  -> (observation dict, list of (fingerprint, message))."""
    import os, warnings
    from pathlib import Path
    import numpy as np
    import scared
    ans = case['answers']; n = len(ans)
    tr, pt = _pool(n, seed)
    ths = scared.traces.read_ths_from_ram(tr, plaintext=pt, idx=np.arange(n, dtype='uint32'))
    fn = os.path.join(tmpdir, 'out_%d.ets' % execute.counter); execute.counter += 1
    viol = []
    scale = 3 if case['kw'] else 1
    states = set()
    if case['pre'] != 'fresh':
        tr0, pt0 = _pool(2, seed + 1)
        ths0 = scared.traces.read_ths_from_ram(tr0 + 50, plaintext=pt0, idx=np.arange(2, dtype='uint32') + 90)
        s0 = scared.Synchronizer(ths0, fn, lambda trace_object: trace_object.samples[:])
        r0 = s0.run(); r0.close()
    calls = {'i': 0, 'acc': 0, 'run': 0}
    holder = {}

    def fun(trace_object, **kw):
        if not calls['run']:
            # dry run (check()): answer according to the trace that is handed over, observe nothing
            j = int(np.asarray(trace_object.idx).reshape(-1)[0])
            a = ans[j]
            if a == 'R': raise scared.ResynchroError('rejected %d' % j)
            if a == 'X': raise ZeroDivisionError('boom %d' % j)
            if a == 'N': return None
            trace_object.mark = np.array([1000 + j], dtype='int32')        # a note the function leaves on the trace (dry run: 1000 + index)
            return _data(tr[j], j, case['data'], kw.get('scale', 1))
        i = calls['i']; calls['i'] += 1
        s = holder['s']
        if s.processed_counter != i or s.synchronized_counter != calls['acc']:
            viol.append(('C20/loop/counters', 'at call %d of %r: processed_counter=%d synchronized_counter=%d, expected %d/%d' % (i, ans, s.processed_counter, s.synchronized_counter, i, calls['acc'])))
        got_idx = int(np.asarray(trace_object.idx).reshape(-1)[0])
        if got_idx != i or int(trace_object.samples[0]) != i or not np.array_equal(np.asarray(trace_object.samples[:]), tr[i]):
            viol.append(('C20/loop/wrong-trace', 'call %d of %r received trace idx=%d' % (i, ans, got_idx)))
        if case['kw'] and kw != {'scale': 3}:
            viol.append(('C20/loop/kwargs', 'kwargs not forwarded: %r' % (kw,)))
        states.add((i, calls['acc'], len(ans[:i]) - len(ans[:i].rstrip('RNX'))))
        a = ans[i]
        if a == 'R': raise scared.ResynchroError('rejected %d' % i)
        if a == 'X': raise ZeroDivisionError('boom %d' % i)
        if a == 'N': return None
        calls['acc'] += 1
        trace_object.mark = np.array([2000 + i], dtype='int32')            # the note left during the run (2000 + index): part of the trace's metadata when it is written
        return _data(tr[i], i, case['data'], kw.get('scale', 1))

    out_arg = fn if case['out'] == 'str' else Path(fn)
    obs = {'exc': None}
    try:
        s = scared.Synchronizer(ths, out_arg, fun, overwrite=(case['pre'] == 'exists_overwrite'), **({'scale': 3} if case['kw'] else {}))
    except Exception as e:
        obs['exc'] = 'ctor:' + type(e).__name__
        return obs, viol, states
    holder['s'] = s
    acc = [i for i, a in enumerate(ans) if a == 'A']
    exp_rows = [_data(tr[i], i, case['data'], scale) for i in acc]
    if case['data'] == 'varying' and acc:
        # results of different lengths go into one rectangular set whose row length is fixed by the first accepted trace: a longer result is cut, a shorter one is
        # followed by filler zeros - in particular by nothing that another trace returned
        L0 = len(exp_rows[0])
        exp_rows = [np.concatenate([r[:L0], np.zeros(max(0, L0 - len(r)), r.dtype)]) for r in exp_rows]
    res = None
    if case.get('check_first'):
        import io, contextlib
        np.random.seed(seed + n)                                   # check() picks its traces with numpy's global generator
        try:
            with contextlib.redirect_stdout(io.StringIO()):
                s.check(nb_traces=case['check_first'])
        except Exception as e:
            viol.append(('C20/check/raised', '%r: check() raised %s: %s' % (ans, type(e).__name__, e)))
    calls['run'] = 1
    with warnings.catch_warnings(record=True) as wrn:
        warnings.simplefilter('always')
        try:
            res = s.run()
        except Exception as e:
            obs['exc'] = type(e).__name__; obs['exc_msg'] = str(e)[:160]
    obs['warnings'] = len(wrn)
    obs['processed'] = s.processed_counter; obs['synchronized'] = s.synchronized_counter

    def read_back(reader):
        smp = np.asarray(reader.samples[:])
        try:
            holder['mark'] = np.asarray(reader.mark[:]).reshape(-1)
        except Exception as e:
            holder['mark'] = e
        return smp, np.asarray(reader.plaintext[:]), np.asarray(reader.idx[:]).reshape(-1)

    def check_content(smp, p, ix, where):
        if len(smp) != len(acc):
            viol.append(('C20/output/length', '%s: %r (%s): output holds %d traces, %d were accepted' % (where, ans, case['pre'], len(smp), len(acc)))); return
        for j, i in enumerate(acc):
            if smp[j].shape != exp_rows[j].shape or not np.array_equal(smp[j], exp_rows[j]):
                viol.append(('C20/output/samples', '%s: %r: output row %d is %s, accepted trace %d returned %s' % (where, ans, j, smp[j].tolist(), i, exp_rows[j].tolist()))); break
            if not np.array_equal(np.asarray(p[j]).reshape(-1), pt[i]) or int(ix[j]) != i:
                viol.append(('C20/output/metadata', '%s: %r: output row %d carries metadata idx=%s plaintext=%s, originating trace %d has plaintext=%s'
                             % (where, ans, j, int(ix[j]), np.asarray(p[j]).tolist(), i, pt[i].tolist()))); break
        mk = holder.get('mark')
        if len(acc) and (isinstance(mk, Exception) or len(mk) != len(acc) or [int(v) for v in mk] != [2000 + i for i in acc]):
            viol.append(('C20/output/metadata-set-during-run', '%s: %r%s: the note the function left on each accepted trace during the run (2000 + index) is read back as %s'
                         % (where, ans, ' after check()' if case.get('check_first') else '', mk if isinstance(mk, Exception) else [int(v) for v in mk])))
        if len(acc) and smp.dtype != exp_rows[0].dtype:
            viol.append(('C20/output/dtype', '%s: %r: output dtype %s, returned data dtype %s' % (where, ans, smp.dtype, exp_rows[0].dtype)))

    partial = case['pre'] == 'exists_keep'
    if not (partial and obs['exc'] is not None):
        # when the pre-existing file refuses to be overwritten run() stops early: counters are then not constrained
        if s.processed_counter != n:
            viol.append(('C20/counters/processed', '%r: processed_counter=%d for %d inputs (run raised %s)' % (ans, s.processed_counter, n, obs['exc'])))
        if s.synchronized_counter != len(acc):
            viol.append(('C20/counters/synchronized', '%r: synchronized_counter=%d for %d accepted (run raised %s)' % (ans, s.synchronized_counter, len(acc), obs['exc'])))
        if calls['i'] != n:
            viol.append(('C20/loop/calls', '%r: user function called %d times for %d inputs' % (ans, calls['i'], n)))
    if res is not None and case['pre'] != 'fresh' and not acc:
        # pre-existing file and nothing accepted: the Synchronizer never writes (estraces' ETSWriter opens/resets the file lazily, on the
        # first write, also with overwrite=True), so get_reader() hands back the untouched earlier file.  The property speaks about
        # what run() wrote; this corner of the third-party writer is counted, not judged.
        obs['untouched_preexisting_returned'] = True
        try: res.close()
        except Exception: pass
    elif res is not None:
        try:
            check_content(*read_back(res), 'returned set')
        except Exception as e:
            if acc or not isinstance(e, (AttributeError, KeyError, IndexError, ValueError, OSError)):
                viol.append(('C20/output/unreadable', '%r: returned set cannot be read: %s %s' % (ans, type(e).__name__, e)))
        try: res.close()
        except Exception: pass
    elif acc and not partial:
        viol.append(('C20/run/raised', '%r: run() raised %s (%s) although %d traces were accepted' % (ans, obs['exc'], obs.get('exc_msg'), len(acc))))
    elif not acc and case['pre'] == 'fresh' and os.path.exists(fn):
        try:
            r = scared.traces.read_ths_from_ets_file(fn)
            if len(r) != 0:
                viol.append(('C20/output/length', 'nothing accepted for %r but the output file holds %d traces' % (ans, len(r))))
            r.close()
        except Exception:
            pass
    # second run on the same object: refused, nothing changes
    before = (s.processed_counter, s.synchronized_counter, calls['i'])
    try:
        r2 = s.run()
        viol.append(('C20/second-run/accepted', '%r (%s): a second run() on the same object was accepted' % (ans, 'nothing accepted in the first run' if not acc else '%d accepted' % len(acc))))
        try: r2.close()
        except Exception: pass
    except scared.SynchronizerError:
        pass
    except Exception as e:
        viol.append(('C20/second-run/wrong-exception', '%r: second run() raised %s: %s' % (ans, type(e).__name__, str(e)[:120])))
    if (s.processed_counter, s.synchronized_counter, calls['i']) != before:
        viol.append(('C20/second-run/changed-state', '%r: second run() changed counters/calls from %s to %s' % (ans, before, (s.processed_counter, s.synchronized_counter, calls['i']))))
    if acc and res is not None and os.path.exists(fn):
        try:
            r = scared.traces.read_ths_from_ets_file(fn)
            check_content(*read_back(r), 'file after second run()')
            r.close()
        except Exception as e:
            viol.append(('C20/output/unreadable', '%r: output file cannot be read back: %s %s' % (ans, type(e).__name__, e)))
    try:
        if os.path.exists(fn): os.remove(fn)
    except Exception:
        pass
    return obs, viol, states


execute.counter = 0


def run_shard(shard, ctx):
    import shutil, tempfile
    from mc.common import Collector
    col = Collector()
    tier, seed = ctx['tier'], ctx['seed']
    tmp = tempfile.mkdtemp(prefix='verif_c20_')
    try:
        if shard.get('replay_case') is not None:
            cases = [shard['replay_case']]
        else:
            cases = _cases(tier)[shard['part']::shard['parts']]
        for case in cases:
            obs, viol, states = execute(case, tmp, seed)
            col.evaluations += 1; col.validated += 1
            col.states += len(states) + 1; col.transitions += len(case['answers'])
            ans = case['answers']
            if 'A' in ans and len(set(ans)) > 1: col.nontrivial += 1
            col.outcomes.add((ans, obs.get('exc'), obs.get('processed'), obs.get('synchronized')))
            if obs.get('warnings'): col.count('runs_with_consecutive_error_warning')
            if obs.get('exc'): col.count('run_raised/' + case['pre'])
            if case['pre'] != 'fresh': col.count('preexisting_output_cases')
            if obs.get('untouched_preexisting_returned'): col.count('preexisting_untouched_not_judged')
            for fp, msg in viol:
                col.violation(fp, msg, case)
            col.sample({'case': case, 'observed': {k: obs.get(k) for k in ('exc', 'processed', 'synchronized')}}, limit=2)
    finally:
        shutil.rmtree(tmp, ignore_errors=True)
    return col.result()


def finalize(shards_, results, tier, seed):
    c = {}
    for r in results:
        for k, v in r.get('counters', {}).items(): c[k] = c.get(k, 0) + v
    g = []
    if not c.get('runs_with_consecutive_error_warning'): g.append('vacuity: the consecutive-error warning thresholds were never crossed')
    if not c.get('run_raised/fresh'): g.append('vacuity: no all-rejected run (run() raising for lack of an output set) was exercised')
    if not c.get('preexisting_output_cases'): g.append('vacuity: no pre-existing output case')
    return {'guard_failures': g}
