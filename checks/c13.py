"""C13 - MIA is H(B) - H(B|V) over uniform bins; non-uniform edges are refused (E3)."""
PROPERTY = 'C13'
LEVEL = 'model_checking'
ENGINE = 'E3'
RULE = ('bounded-exhaustive: for each bin configuration (2-4 uniform bins, integer/negative/fractional edges) all sample columns over the alphabet {below first edge, on every edge, strictly inside '
        'every bin, on the last edge, above it}^N x all class columns over {declared classes + one undeclared-free variant}^N, N=4 (quick) / 4-5 (thorough), packed into one update and via a 2-batch split, '
        'integer and float storage; edge validation: EVERY strictly increasing edge list of length 3..6 over the grid {0..7} plus unsorted lists and linspace lists with large/tiny ranges; '
        'a case = one (configuration, sample column, class column) or one edge list; non-trivial = at least one in-range sample (MI defined) / list is not uniform')
ASSUMPTIONS = ['numpy/numba are trusted', 'edges and samples exactly representable (a sample "on" a non-representable edge is not well defined)', 'N<=5 rows']
TRUSTED = ['mc/refs/mia.py (count-based definition with exact rational bin index; vectorised form cross-checked against the plain-Python definition at start-up)', 'LUT memo']
TECHNIQUE = 'bounded-exhaustive enumeration of sample/class columns over edge-aware alphabets and of all small edge lists on the real MIA distinguisher against a count-based reference model'
LEVEL_TEXT = ('Every sample column over an alphabet that hits every edge, the inside of every bin and both out-of-range sides, crossed with every class column, is executed on the real MIADistinguisher '
              '(one batch and two batches, several dtypes, empty bins/classes inserted) and compared with H(B)-H(B|V) computed from counts; every increasing edge list over {0..7} of length 3..6 '
              'must be accepted iff equally spaced.')
LEVEL_NOTE = 'Trusted: numpy, numba, reference. Automatic bin edges (derived from the first batch) are outside the property (explicit uniform edges only).'
DESIGN_REF = 'DESIGN.md section 3, C13'

BINCFG = [
    ('0-4-8-12', [0, 4, 8, 12], [-1, 0, 2, 4, 6, 8, 11, 12, 13]),
    ('0-1-2', [0, 1, 2], [-1, 0, 1, 2, 3]),
    ('neg', [-2, 0, 2, 4, 6], [-3, -2, -1, 0, 1, 2, 3, 4, 5, 6, 7]),
    ('0-3-6-9', [0, 3, 6, 9], [-1, 0, 1, 3, 5, 6, 7, 9, 10]),
    ('half', [0, .5, 1, 1.5, 2], [-.25, 0, .25, .5, .75, 1, 1.25, 1.5, 1.75, 2, 2.5]),
    ('0-7-14', [0, 7, 14], [0, 3, 7, 10, 14, 15]),
    ('half-int', [0.5, 2.5, 4.5, 6.5], [0, 1, 2, 3, 4, 5, 6, 7]),            # integer samples, non-integer edges (outer edges must not be truncated)
    ('neg-half', [-3.5, -1.5, 0.5, 2.5], [-4, -3, -2, -1, 0, 1, 2, 3]),
]


def bound(tier):
    return {'N': [4] if tier == 'quick' else [4, 5], 'edge_lists': 'all increasing lists of length 3..6 over {0..7}'}


def shards(tier, seed):
    out = []
    for i, (name, edges, al) in enumerate(BINCFG):
        for n in ([4] if tier == 'quick' else [4, 5]):
            if len(al) ** n > 200000: continue
            for cc in range(3 if n < 5 else 1):
                out.append({'name': 'mi-%s-N%d-c%d' % (name, n, cc), 'kind': 'mi', 'cfg': i, 'N': n, 'cc': cc, 'cost': len(al) ** n / 1000.0 * (1 if cc == 0 else 3)})
    out.append({'name': 'edges', 'kind': 'edges', 'cost': 2})
    return out


def run_shard(shard, ctx):
    import numpy as np
    from mc.common import Collector
    col = Collector()
    if shard['kind'] == 'mi': _mi(shard, ctx, col, np)
    else: _edges(ctx, col, np)
    return col.result()


def _mi(shard, ctx, col, np):
    import scared
    from mc.common import all_columns, install_lut_memo
    from mc.refs import mia as R
    R.selftest(); install_lut_memo()
    name, edges, al = BINCFG[shard['cfg']]
    n = shard['N']
    is_int = all(float(a).is_integer() for a in al)
    X = all_columns(al, n)
    classcfgs = [('2cls', [0, 1], [0, 1]), ('3cls+empty', [0, 1, 2, 3], [0, 1, 2]), ('gap+undeclared', [5, 2], [2, 5, 9])]
    classcfgs = [classcfgs[shard['cc']]]
    seen_def = seen_undef = 0
    for cname, parts, labels in classcfgs:
        Y = all_columns(labels, n)
        ref, defined, tot = R.mi_matrix(X, Y, edges, parts)
        # inserting empty bins (refining away from the data is not possible on a uniform grid; instead extend the range with empty bins)
        variants = [('plain', edges)]
        step = edges[1] - edges[0]
        if cname == '2cls':
            variants.append(('extended', [edges[0] - step] + list(edges) + [edges[-1] + step]))
        for vname, ed in variants:
            if vname == 'extended':
                ref_v, defined_v, _ = R.mi_matrix(X, Y, ed, parts)
            else:
                ref_v, defined_v = ref, defined
            for tdt in (['int16', 'float32', 'float64'] if is_int else ['float32', 'float64']):
                for split in (None, 1, n // 2):
                    for prec in (('uint32',) if (tdt != 'float64' or split) else ('uint32', 'float64')):
                        case = {'bins': name, 'edges': ed, 'classes': parts, 'labels': labels, 'N': n, 'tdtype': tdt, 'split': split, 'precision': prec}
                        try:
                            d = scared.MIADistinguisher(bin_edges=ed, partitions=parts, precision=prec)
                            Xs = X.astype(tdt); Ys = Y.astype('uint8')
                            if split == 1:
                                # the other documented way to configure edges: assign the public attribute after construction, on an object built with
                                # the default bin count (run on a slice of the packed columns: a wrong bin count must not exhaust memory)
                                ds = scared.MIADistinguisher(partitions=parts, precision=prec); ds.bin_edges = ed
                                cs, cw = slice(0, None, max(1, Xs.shape[1] // 150)), slice(0, None, max(1, Ys.shape[1] // 40))
                                ds.update(Xs[:, cs], Ys[:, cw]); gs = np.asarray(ds.compute(), dtype='float64')
                                rs = ref_v[cw, cs]; dfn = defined_v[cw, cs]
                                col.transitions += 2; col.evaluations += rs.size; col.states += rs.size
                                bad = (gs.shape != rs.shape) or bool(((~dfn) & ~np.isnan(gs)).any()) or bool((dfn & ~(np.abs(np.where(dfn, gs - rs, 0.0)) <= 1e-9)).any())
                                if bad:
                                    col.violation('C13/mi/edges-assigned-after-construction', 'MIADistinguisher(); d.bin_edges = %s gives another result than the same edges given to the constructor / the definition' % (ed,), case)
                            if split is None: d.update(Xs, Ys)
                            else:
                                d.update(Xs[:split], Ys[:split]); d.compute(); d.update(Xs[split:], Ys[split:])
                            got = d.compute(); got2 = d.compute()
                        except Exception as e:
                            col.violation('C13/mi/raised', '%s: %s' % (type(e).__name__, e), case); continue
                        col.transitions += 3 if split is None else 5
                        if got.shape != ref_v.shape:
                            col.violation('C13/mi/shape', 'shape %s expected %s' % (got.shape, ref_v.shape), case); continue
                        col.evaluations += ref_v.size; col.states += ref_v.size; col.nontrivial += int(defined_v.sum())
                        seen_def += int(defined_v.sum()); seen_undef += int((~defined_v).sum())
                        if not np.array_equal(got, got2, equal_nan=True):
                            col.violation('C13/mi/compute-not-idempotent', 'two consecutive compute() differ', case)
                        g = np.asarray(got2, dtype='float64')
                        bad_undef = (~defined_v) & ~np.isnan(g)
                        bad_def = defined_v & ~np.isfinite(g)
                        with np.errstate(all='ignore'):
                            err = np.where(defined_v & np.isfinite(g), np.abs(g - ref_v), 0.0)
                        bad_val = err > 1e-9
                        neg = defined_v & np.isfinite(g) & (g < -1e-12)
                        for kind, m in (('undefined-not-nan', bad_undef), ('defined-not-finite', bad_def), ('value', bad_val), ('negative', neg)):
                            k = int(m.sum())
                            if k:
                                w, s = (int(i) for i in np.argwhere(m)[0])
                                onedge = any(float(v) in [float(e) for e in ed] for v in X[:, s])
                                col.violations_n('C13/mi/%s%s' % (kind, '/empty-bins' if vname == 'extended' else ''), k,
                                                 'MIA %s: samples=%s classes-of-traces=%s edges=%s declared=%s got=%r ref=%r%s (%d entries)'
                                                 % (kind, X[:, s].tolist(), Y[:, w].tolist(), ed, parts, float(g[w, s]), float(ref_v[w, s]), ' [sample on an edge]' if onedge else '', k),
                                                 dict(case, x=X[:, s].tolist(), y=Y[:, w].tolist(), got=float(g[w, s]), ref=None if not defined_v[w, s] else float(ref_v[w, s])))
                        col.err('mi', float(err[~bad_val].max()) if err.size else 0.0)
        col.sample({'bins': name, 'edges': edges, 'samples': X[:, min(40, X.shape[1] - 1)].tolist(), 'classes': Y[:, min(5, Y.shape[1] - 1)].tolist(), 'declared': parts,
                    'ref_mi': None if not defined[min(5, Y.shape[1] - 1), min(40, X.shape[1] - 1)] else float(ref[min(5, Y.shape[1] - 1), min(40, X.shape[1] - 1)])}, limit=1)
    col.guard(seen_def > 0 and seen_undef > 0, 'vacuity: defined=%d undefined=%d' % (seen_def, seen_undef))


def _edges(ctx, col, np):
    import itertools
    import scared
    from fractions import Fraction as F

    def uniform(ed):
        d = [F(b) - F(a) for a, b in zip(ed, ed[1:])]
        return all(x == d[0] for x in d)

    def attempt(ed, as_array=False, dtype='float64'):
        arg = np.array(ed, dtype=dtype) if as_array else list(ed)
        try:
            scared.MIADistinguisher(bin_edges=arg); return 'accepted'
        except ValueError:
            return 'refused'
        except Exception as e:
            return 'raised %s' % type(e).__name__
    for L in range(3, 7):
        for ed in itertools.combinations(range(8), L):
            for as_array in (False, True):
                col.evaluations += 1; col.states += 1; col.transitions += 1
                u = uniform(ed)
                if not u: col.nontrivial += 1
                r = attempt(ed, as_array)
                diffs = [b - a for a, b in zip(ed, ed[1:])]
                if u and r != 'accepted':
                    col.violation('C13/edges/uniform-refused', 'uniform edges %s %s' % (list(ed), r), {'edges': list(ed)})
                if not u and r != 'refused':
                    shape = 'widening' if diffs == sorted(diffs) else ('narrowing' if diffs == sorted(diffs, reverse=True) else 'compensating')
                    col.violation('C13/edges/non-uniform-accepted/%s' % shape, 'non-uniform (%s) edges %s are %s (bin widths %s)' % (shape, list(ed), r, diffs), {'edges': list(ed)},
                                  unit_test="import pytest, scared\ndef test_replay():\n    with pytest.raises(ValueError):\n        scared.MIADistinguisher(bin_edges=%r)\n" % (list(ed),))
                col.outcomes.add(r)
    # 2-edge lists (one bin) are trivially uniform; unsorted / repeated must be refused
    for ed in ([0, 1], [3, 7], [0.5, 0.75]):
        col.evaluations += 1; col.states += 1
        if attempt(ed) != 'accepted': col.violation('C13/edges/uniform-refused', 'single-bin edges %s refused' % ed, {'edges': ed})
    for ed in ([0, 2, 1], [3, 2, 1], [0, 1, 1, 2], [0, 0], [2, 1]):
        col.evaluations += 1; col.states += 1; col.nontrivial += 1
        if attempt(ed) != 'refused': col.violation('C13/edges/unsorted-accepted', 'unsorted/repeated edges %s accepted' % ed, {'edges': ed})
    # floating-point uniform grids must be accepted at any scale; scaled non-uniform grids must be refused
    for lo, hi, nb in ((0, 1, 10), (0, 1, 128), (-1e6, 1e6, 256), (0, 1e-6, 16), (0, 1e-9, 16), (-1e-12, 1e-12, 8), (0, 1e9, 64), (1000, 1001, 100), (-3.3, 7.9, 37), (0, 255, 255)):
        ed = np.linspace(lo, hi, nb + 1)
        col.evaluations += 1; col.states += 1
        r = attempt(ed, True)
        if r != 'accepted': col.violation('C13/edges/uniform-refused', 'linspace(%s, %s, %d) %s' % (lo, hi, nb + 1, r), {'linspace': [lo, hi, nb + 1]})
        # the same grid held in float32 (what numpy.linspace returns for float32 end points, e.g. the min/max of float32 traces) is uniform up to
        # the rounding of its own dtype and must be accepted too
        ed32 = np.linspace(np.float32(lo), np.float32(hi), nb + 1).astype('float32')
        if len(np.unique(ed32)) == nb + 1:
            col.evaluations += 1; col.states += 1
            r = attempt(ed32, True, 'float32')
            if r != 'accepted': col.violation('C13/edges/uniform-refused/float32', 'float32 linspace(%s, %s, %d) %s' % (lo, hi, nb + 1, r), {'linspace': [lo, hi, nb + 1], 'dtype': 'float32'})
    # automatic binning (edges derived from the first batch) must at least be usable for every trace dtype
    for tdt in ('uint8', 'int16', 'float32', 'float64'):
        rs = np.random.RandomState(5)
        Xa = (rs.rand(40, 3) * 50).astype(tdt); Ya = rs.randint(0, 4, (40, 1)).astype('uint8')
        col.evaluations += 1; col.states += 1; col.transitions += 1
        try:
            da = scared.MIADistinguisher(bins_number=8, partitions=[0, 1, 2, 3]); da.update(Xa, Ya); da.compute()
        except Exception as e:
            col.violation('C13/edges/automatic-binning-raised', 'MIADistinguisher(bins_number=8) on %s traces: %s: %s' % (tdt, type(e).__name__, e), {'tdtype': tdt})
    for scale in (1e-12, 2.0 ** -40, 1e-9, 1e-6, 1e-3, 1.0, 1e3, 1e6, 1e9, 2.0 ** 40):          # the unit of the samples is not part of the rule (traces in nA or in ADC counts)
        for base in ([0, 2, 3], [0, 1, 3], [0, 1, 3, 4], [0, 1, 2, 4], [0, 3, 4, 5], [0, 1, 2, 3, 5]):
            ed = [b * scale for b in base]
            col.evaluations += 1; col.states += 1; col.nontrivial += 1
            r = attempt(ed)
            if r != 'refused':
                col.violation('C13/edges/non-uniform-accepted/scaled', 'non-uniform edges %s (scale %g) are %s' % (ed, scale, r), {'edges': ed})
    # edges that are uniform only up to the accepted rounding-sized tolerance (first interval off by 2^-31 of a width): a sample well inside a bin
    # (5e-8 of a width away from the nearest edge, i.e. two orders of magnitude beyond that tolerance) belongs to the same bin under every reading of the edges,
    # for every bin index up to 255 - a bin scale derived from one interval instead of the whole range drifts by index * 2^-31 and misplaces them
    from mc.refs import mia as RM
    for nb in (8, 256):
        for sign in (1, -1):
            ed = np.arange(nb + 1, dtype='float64'); ed[1] += sign * 2.0 ** -31
            ks = [k for k in (1, 2, nb // 2, nb - 56 if nb > 56 else nb - 2, nb - 1) if 0 < k < nb]
            xs = []
            for k in ks: xs += [k + 5e-8, k + 1 - 5e-8]
            X = np.array(xs, dtype='float64')[:, None]
            for pat in ([0, 1] * len(ks), [0, 0, 1, 1] * (len(ks) // 2) + [0, 1] * (len(ks) % 2), [0] * len(ks) + [1] * len(ks)):
                Y = np.array(pat[:len(xs)], dtype='uint8')[:, None]
                col.evaluations += 1; col.states += 1; col.nontrivial += 1; col.transitions += 2
                case = {'edges': 'arange(%d) with edge 1 moved by %+d * 2^-31' % (nb + 1, sign), 'samples': xs, 'classes': pat[:len(xs)]}
                try:
                    d = scared.MIADistinguisher(bin_edges=ed, partitions=[0, 1]); d.update(X, Y); got = float(np.asarray(d.compute()).reshape(-1)[0])
                except Exception as e:
                    col.violation('C13/edges/tolerated-grid-raised', 'edges %s: %s: %s' % (case['edges'], type(e).__name__, e), case); continue
                ref, de, _ = RM.mi_matrix(X, Y, list(range(nb + 1)), [0, 1])
                if not abs(got - float(ref[0, 0])) <= 1e-9:
                    col.violation('C13/edges/tolerated-grid-misbinned', 'edges %s, samples %s (each 5e-8 of a width inside its bin), classes %s: MIA %r, H(B)-H(B|V) over those bins %r'
                                  % (case['edges'], xs, pat[:len(xs)], got, float(ref[0, 0])), case)
    # float32 traces against float64 edges whose last edge is not a float32: the sample float32(last edge) lies strictly ABOVE the configured edge when the rounding goes up
    # (0.3 -> 0.30000001192, 0.1 -> 0.10000000149) and is out of range; when it goes down (0.7 -> 0.69999998808) it belongs to the last bin
    for lo, hi, nb in ((0.0, 0.3, 3), (-0.7, 0.1, 4), (0.0, 0.7, 7), (0.1, 0.9, 4)):
        ed = np.linspace(lo, hi, nb + 1)
        w = (hi - lo) / nb
        xs32 = np.array([lo + 0.5 * w, lo + 1.5 * w, hi - 0.5 * w, hi, hi, hi, lo, lo + 0.25 * w], dtype='float32')
        for pat in ([0, 1, 0, 1, 1, 0, 1, 0], [0, 0, 1, 1, 1, 1, 0, 1], [1, 0, 0, 0, 1, 0, 1, 1]):
            X = xs32[:, None]; Y = np.array(pat, dtype='uint8')[:, None]
            col.evaluations += 1; col.states += 1; col.nontrivial += 1; col.transitions += 2
            case = {'edges': 'linspace(%s, %s, %d) float64' % (lo, hi, nb + 1), 'samples_float32': [float(v) for v in xs32], 'classes': pat}
            try:
                d = scared.MIADistinguisher(bin_edges=ed, partitions=[0, 1]); d.update(X, Y); got = float(np.asarray(d.compute()).reshape(-1)[0])
            except Exception as e:
                col.violation('C13/edges/float32-traces-raised', '%s: %s: %s' % (case['edges'], type(e).__name__, e), case); continue
            ref, de, _ = RM.mi_matrix(X.astype('float64'), Y, [float(e) for e in ed], [0, 1])
            if de[0, 0] and not abs(got - float(ref[0, 0])) <= 1e-9:
                col.violation('C13/edges/float32-sample-at-rounded-last-edge', 'float32 samples %s against float64 edges %s, classes %s: MIA %r, H(B)-H(B|V) with every sample compared to the edges as configured %r'
                              % ([float(v) for v in xs32], case['edges'], pat, got, float(ref[0, 0])), case)
    col.sample({'check': 'bin_edges validation', 'lists': 'all increasing lists over {0..7}, length 3..6', 'example_refused': [0, 1, 3], 'example_accepted': [1, 3, 5, 7]}, limit=1)
