"""C06 - DES / TDES encrypt/decrypt and every stop point conform to FIPS 46-3 (E3: the cipher as a transition system).

Reference: mc/refs/des.py (bit-list transcription of the standard's tables, EDE composition, scared's documented slot
semantics).  Every (key form, direction, at_des, at_round, after_step) stop point is executed on the real code for
four broadcasting shapes, in two sweep orders, and must return the reference value; primitives on weight<=2 /
weight>=width-2 / single-active-word inputs; caller arrays and class-level round templates must stay unchanged.
"""
PROPERTY = 'C06'
LEVEL = 'model_checking'
ENGINE = 'E3'
RULE = ('structure-complete enumeration: key forms {8,16,24 master bytes; 128,256,384 pre-expanded bytes} x {encrypt,decrypt} x every allowed at_des x at_round 0..15 x '
        'after_step 0..9 (+ defaults) x four broadcasting shapes x block dtypes, forward and reverse sweep order, on a 64-block pool + seeded keys; primitives on all inputs of '
        'Hamming weight <=2 and >=width-2 and all single-active-word values; a case = one (configuration, stop point, block, key) state; non-trivial = reference value differs '
        'from the zero-padded input block')
ASSUMPTIONS = ['numpy is trusted', 'value space: complete per S-box entry / per bit position, not the 2^64 x 2^168 product (DESIGN.md section 4)']
TRUSTED = ['mc/refs/des.py (FIPS 46-3 transcription; self-tested on the classic worked example and against pycryptodome DES/DES3 at start-up)']
TECHNIQUE = 'exhaustive enumeration of all DES/TDES stop points, key forms, shapes on the real cipher against a FIPS 46-3 state-trace reference model; bit-complete primitive domains'
LEVEL_TEXT = ('All 2 x (1+3+3) x 2 key-form families x 160 stop points (+defaults) are executed on scared.des for four broadcasting shapes, in two orders (history independence), '
              'and compared with the reference value of exactly that slot; IP/FP/E/P/inverse-P on every input of weight <=2 and >=width-2 and every single-active-word value, '
              'S-boxes on all 8x64 inputs; input arrays and class-level round templates digest-checked after every call.')
LEVEL_NOTE = 'Trusted: numpy, reference model (validated against the FIPS worked example and pycryptodome). Not covered: the full key x block product space.'
DESIGN_REF = 'DESIGN.md section 3, C06'

KEYFORMS = (8, 16, 24, 128, 256, 384)


def bound(tier):
    return {'stop_points': 'all 160 per pass', 'pool_blocks': 64 if tier == 'quick' else 192, 'keys': 2 if tier == 'quick' else 4}


def shards(tier, seed):
    out = []
    for kf in KEYFORMS:
        for mode in ('enc', 'dec'):
            for at_des in ((0,) if kf in (8, 128) else (0, 1, 2)):
                out.append({'name': 'sweep-k%d-%s-des%d' % (kf, mode, at_des), 'kind': 'sweep', 'kf': kf, 'mode': mode, 'at_des': at_des, 'cost': 10 * (at_des + 1)})
    out.append({'name': 'prims', 'kind': 'prims', 'cost': 5})
    out.append({'name': 'errors', 'kind': 'errors', 'cost': 1})
    out.append({'name': 'layouts', 'kind': 'layouts', 'cost': 6})
    for kf in (8, 24, 128):
        out.append({'name': 'histories-k%d' % kf, 'kind': 'histories', 'kf': kf, 'cost': 15})
    return out


def _templates_digest(des):
    from mc.common import digest
    pc = des._ParametricCipher
    t = tuple(tuple(None if s is None else int(s) for s in getattr(pc, n)) for n in ('MANDATORY_ROUND_ELEMENTS', 'FIRST_ROUND', 'ROUND', 'LAST_ROUND', 'FINAL_ROUND'))
    import numpy as np
    arrs = [np.asarray(getattr(des, n)) for n in ('SBOXES', 'ROUND_KEY_BITS_INDEXES', 'ROUND_KEY_MISSING_BITS_INDEXES', 'PC1', 'PC2') if hasattr(des, n)]
    return t, digest(*arrs)


def run_shard(shard, ctx):
    import numpy as np
    from scared.des import base as des
    from mc.common import Collector
    from mc.refs import des as R
    R.selftest()
    col = Collector()
    t0 = _templates_digest(des)
    if shard['kind'] == 'sweep':
        _sweep(shard, ctx, col, des, R, np)
    elif shard['kind'] == 'prims':
        _prims(col, des, R, np)
    elif shard['kind'] == 'layouts':
        _layouts(ctx, col, des, np)
    elif shard['kind'] == 'histories':
        _histories(shard, ctx, col, des, R, np)
    else:
        _errors(col, des, np)
    if _templates_digest(des) != t0:
        col.violation('C06/class-templates-modified', 'class-level round templates / module tables changed during %s' % shard['name'], {'shard': shard['name']})
    return col.result()


def _mk_keys(R, np, kf, k24s):
    """k24s: list of 24-byte lists.  -> (array for scared in the key form, list of [ks1, ks2, ks3] reference schedules)."""
    arr = []; scheds = []
    for k in k24s:
        k1, k2, k3 = k[0:8], k[8:16], k[16:24]
        n = {8: 1, 128: 1, 16: 2, 256: 2, 24: 3, 384: 3}[kf]
        parts = [k1, k2, k3][:n]
        ks = [R.key_schedule(p) for p in parts]
        if kf <= 24:
            arr.append(sum(parts, []))
        else:
            arr.append([w for s in ks for rk in s for w in rk])
        full = [ks[0], ks[0], ks[0]] if n == 1 else ([ks[0], ks[1], ks[0]] if n == 2 else ks)
        scheds.append(full)
    return np.array(arr, dtype=np.uint8), scheds


def _sweep(shard, ctx, col, des, R, np):
    from mc.common import rng_for
    kf, mode, at_des = shard['kf'], shard['mode'], shard['at_des']
    tier, seed = ctx['tier'], ctx['seed']
    rng = rng_for(seed, 'c06', kf)
    nblocks = 64 if tier == 'quick' else 192
    blocks = rng.randint(0, 256, (nblocks, 8)).astype(np.uint8)
    blocks[0] = np.frombuffer(bytes.fromhex('0123456789ABCDEF'), dtype=np.uint8); blocks[1] = 0; blocks[2] = 255
    for i in range(3, 11): blocks[i] = 0; blocks[i, i - 3] = 1 << (i - 3)
    k24s = [list(bytes.fromhex('133457799BBCDFF1' + '0123456789ABCDEF' + 'FEDCBA9876543210'))] + rng.randint(0, 256, (9, 24)).tolist()
    karr, scheds = _mk_keys(R, np, kf, k24s)
    single = kf in (8, 128)
    dec = mode == 'dec'

    def ref(block, ki):
        return R.tdes_trace(list(int(b) for b in block), scheds[ki], dec, at_des)

    nkeys = 2 if tier == 'quick' else 4
    slots = [(r, s) for r in range(16) for s in range(10)] + [None]
    configs = []
    for ki in range(nkeys):
        configs.append(('Nb1k-k%d' % ki, blocks, karr[ki], [(b, ki) for b in range(nblocks)], 'uint8', ki == 0))
    configs.append(('Nb1k-int32', blocks[:12].astype('int32'), karr[2].astype('int16'), [(b, 2) for b in range(12)], 'int32', False))
    configs.append(('Nb1k-uint64', blocks[12:20].astype('uint64'), karr[3], [(b, 3) for b in range(12, 20)], 'uint64', False))
    configs.append(('1b1k', blocks[0], karr[0], [(0, 0)], 'uint8', False))
    configs.append(('1b1k-b', blocks[5], karr[4], [(5, 4)], 'uint8', False))
    configs.append(('1bKk', blocks[3], karr[:8], [(3, ki) for ki in range(8)], 'uint8', False))
    configs.append(('NbNk', blocks[20:30], karr, [(20 + i, i) for i in range(10)], 'uint8', False))
    configs.append(('N1', blocks[7:8], karr[5], [(7, 5)], 'uint8', False))
    cache = {}
    for label, b, k, pairs, dt, both_orders in configs:
        traces = []
        for (bi, ki) in pairs:
            if (bi, ki) not in cache: cache[(bi, ki)] = ref(blocks[bi], ki)
            traces.append(cache[(bi, ki)])
        b0, k0 = b.copy(), k.copy()
        for order in ((slots, slots[::-1]) if both_orders else (slots,)):
            for slot in order:
                case = {'keyform': kf, 'mode': mode, 'at_des': at_des, 'config': label, 'slot': slot}
                f = des.decrypt if dec else des.encrypt
                kw = {}
                if not (single and slot is None): kw['at_des'] = at_des
                if slot is not None: kw['at_round'], kw['after_step'] = slot
                elif at_des == (0 if single else 2): kw.pop('at_des', None)            # full default call
                try:
                    got = f(b, k, **kw)
                except Exception as e:
                    col.violation('C06/%s/raised' % mode, '%s at %s: %s' % (type(e).__name__, slot, e), case); continue
                col.transitions += 1
                key = (at_des,) + (slot if slot is not None else (15, 9))
                exp = np.array([t[key] for t in traces], dtype=np.uint8)
                if len(pairs) == 1: exp = exp[0]
                col.evaluations += len(pairs); col.states += len(pairs)
                col.nontrivial += int((np.atleast_2d(exp) != np.atleast_2d(np.asarray(blocks[[p[0] for p in pairs]]))).any(axis=1).sum())
                if got.shape != exp.shape:
                    col.violation('C06/%s/shape' % mode, 'result shape %s expected %s at %s (%s)' % (got.shape, exp.shape, slot, label), case); continue
                if not np.array_equal(got, exp):
                    bad = np.atleast_2d(got != exp).any(axis=1); i = int(np.argmax(bad))
                    stage = 'final' if (slot is None or slot == (15, 9)) else 'stop-point'
                    fam = 'des' if single else ('tdes2' if kf in (16, 256) else 'tdes3')
                    col.violations_n('C06/%s/%s/%s%s' % (mode, stage, fam, '-expanded' if kf > 24 else ''), int(bad.sum()),
                                     'mismatch at des %d round/step %s: block=%s key(24 bytes)=%s got=%s expected=%s' % (at_des, slot, blocks[pairs[i][0]].tolist(), k24s[pairs[i][1]],
                                                                                                               np.atleast_2d(got)[i].tolist(), np.atleast_2d(exp)[i].tolist()),
                                     dict(case, block=blocks[pairs[i][0]].tolist(), key24=k24s[pairs[i][1]]))
                if not (np.array_equal(b, b0) and np.array_equal(k, k0)):
                    col.violation('C06/%s/caller-array-modified' % mode, 'input arrays modified by the call at %s' % (slot,), case)
                    b, k = b0.copy(), k0.copy()
        col.sample({'keyform': kf, 'mode': mode, 'at_des': at_des, 'config': label, 'block': blocks[pairs[0][0]].tolist(),
                    'reference_at_(round 0, SBOXES)': traces[0][(at_des, 0, 3)]}, limit=1)
    # mutual inversion through the public API (full operations only)
    if at_des == (0 if single else 2) and mode == 'enc':
        for ki in range(len(karr)):
            c = des.encrypt(blocks, karr[ki]); p = des.decrypt(c, karr[ki])
            col.transitions += 2; col.evaluations += nblocks; col.states += nblocks; col.nontrivial += nblocks
            if not np.array_equal(p, blocks):
                col.violation('C06/inversion', 'decrypt(encrypt(x)) != x, key form %d' % kf, {'keyform': kf, 'key24': k24s[ki]})


def _histories(shard, ctx, col, des, R, np):
    """The cipher has no memory: every call sequence (depth <= D) over calls on the SAME block/key array objects and in-place rewrites of those arrays
    between calls; every call must return the FIPS 46-3 state for the CURRENT content of the arrays."""
    import itertools
    from mc.common import rng_for
    kf = shard['kf']; tier = ctx['tier']
    single = kf in (8, 128)
    rng = rng_for(ctx['seed'], 'c06h', kf)
    blocks = rng.randint(0, 256, (16, 8)).astype(np.uint8)
    k24s = [list(bytes.fromhex('133457799BBCDFF1' + '0123456789ABCDEF' + 'FEDCBA9876543210'))] + rng.randint(0, 256, (9, 24)).tolist()
    for i in range(1, 10): k24s.append([b ^ (0x5a if j == (5 * i) % 8 else 0) for j, b in enumerate(k24s[i])])      # one byte of K1 changed
    karr, scheds = _mk_keys(R, np, kf, k24s)
    last = 0 if single else 2
    depth = 4 if tier == 'quick' else 5
    calls = {'E': (False, None), 'D': (True, None), 'Es': (False, (1, 3)), 'Ds': (True, (14, 5))}
    muts = ('Kall', 'Kbyte', 'Ball')
    menu = list(calls) + list(muts)
    cache = {}
    for shape in ('1b1k', 'NbNk'):
        n = 1 if shape == '1b1k' else 3
        for seq in itertools.product(menu, repeat=depth):
            if seq[-1] in muts or not any(e in muts for e in seq): continue
            if any(a in muts and a == b_ for a, b_ in zip(seq, seq[1:])): continue
            bi = list(range(n)); ki = list(range(n))
            B = blocks[0].copy() if n == 1 else blocks[bi].copy()
            K = karr[0].copy() if n == 1 else karr[ki].copy()
            step = 0; held = []
            for pos, ev in enumerate(seq):
                if ev == 'Kall':
                    step += 1; ki = [(1 + (step * 3 + j)) % 10 for j in range(n)]; K[...] = karr[ki[0]] if n == 1 else karr[ki]
                elif ev == 'Kbyte':
                    step += 1
                    j = n - 1
                    if 1 <= ki[j] < 10: ki[j] += 9
                    elif ki[j] >= 10: ki[j] -= 9
                    else: ki[j] = 1
                    if n == 1: K[...] = karr[ki[0]]
                    else: K[j] = karr[ki[j]]
                elif ev == 'Ball':
                    step += 1; bi = [(step * 5 + j) % 16 for j in range(n)]; B[...] = blocks[bi[0]] if n == 1 else blocks[bi]
                else:
                    dec, slot = calls[ev]
                    case = {'kind': 'history', 'keyform': kf, 'shape': shape, 'sequence': list(seq), 'position': pos}
                    col.evaluations += 1; col.states += 1; col.transitions += 1
                    kw = {}
                    if slot is not None: kw = {'at_round': slot[0], 'after_step': slot[1], 'at_des': last}
                    try:
                        got = (des.decrypt if dec else des.encrypt)(B, K, **kw)
                        held.append((pos, got, np.array(got)))
                    except Exception as e:
                        col.violation('C06/history/raised', 'key form %d %s, call %d of %s: %s: %s' % (kf, shape, pos, list(seq), type(e).__name__, e), case); continue
                    exp = []
                    for b_, k_ in zip(bi, ki):
                        if (b_, k_, dec) not in cache: cache[(b_, k_, dec)] = R.tdes_trace([int(x) for x in blocks[b_]], scheds[k_], dec, last)
                        exp.append(cache[(b_, k_, dec)][(last,) + (slot if slot is not None else (15, 9))])
                    exp = np.array(exp, dtype=np.uint8)
                    if n == 1: exp = exp[0]
                    if pos and any(e in muts for e in seq[:pos]): col.nontrivial += 1
                    if np.asarray(got).shape != exp.shape or not np.array_equal(np.asarray(got), exp):
                        col.violation('C06/history/%s' % ('dec' if dec else 'enc'), 'key form %d %s: call %d (%s) of the sequence %s on the same block/key array objects (rewritten in place between calls) does not return '
                                      'the FIPS 46-3 state for the current array contents: got=%s expected=%s' % (kf, shape, pos, ev, list(seq), np.atleast_2d(got)[-1].tolist(), np.atleast_2d(exp)[-1].tolist()), case)
            for pos_, arr, snap in held:
                if not np.array_equal(np.asarray(arr), snap):
                    col.violation('C06/history/earlier-result-rewritten', 'the array returned by call %d of the sequence %s changed during later calls' % (pos_, list(seq)), {'kind': 'history', 'sequence': list(seq), 'position': pos_}); break
            col.outcomes.add(seq)
    col.sample({'check': 'call histories on reused arrays', 'depth': depth, 'menu': menu}, limit=1)
    if kf != 8: return
    # the same key BYTES under two legal interpretations in consecutive calls (one TDES key vs a stack of DES keys, a stack of TDES3 keys vs a stack of TDES2 keys, an expanded key vs
    # sixteen master keys): the second call must be decided by the shape it was given, for every ordered pair of interpretations, both modes, every stop pass valid for both
    def sched_of(row):
        row = [int(x) for x in row]
        n = len(row)
        if n in (8, 16, 24):
            ks = [R.key_schedule(row[i:i + 8]) for i in range(0, n, 8)]
        else:
            ks = [[row[p * 128 + r * 8:p * 128 + r * 8 + 8] for r in range(16)] for p in range(n // 128)]
        return [ks[0], ks[0], ks[0]] if len(ks) == 1 else ([ks[0], ks[1], ks[0]] if len(ks) == 2 else ks)
    exp128 = np.array([w for rk in R.key_schedule(k24s[0][:8]) for w in rk], dtype=np.uint8)
    exp384 = np.array([w for p in range(3) for rk in R.key_schedule(k24s[1][8 * p:8 * p + 8]) for w in rk], dtype=np.uint8)
    buffers = {'16B': (np.array(k24s[0][:16], dtype=np.uint8), [(16,), (2, 8)]), '24B': (np.array(k24s[0], dtype=np.uint8), [(24,), (3, 8)]),
               '48B': (np.array(k24s[1] + k24s[2], dtype=np.uint8), [(2, 24), (3, 16), (6, 8)]), '128B': (exp128, [(128,), (16, 8), (8, 16)]),
               '384B': (exp384, [(384,), (3, 128), (16, 24), (24, 16), (48, 8)])}
    for bname, (buf, shapes) in buffers.items():
        for sa in shapes:
            for sb in shapes:
                if sa == sb: continue
                for dec in (False, True):
                    passes = lambda shp: 1 if shp[-1] in (8, 128) else 3
                    for at_des in range(min(passes(sa), passes(sb))):
                        outs = []
                        for shp in (sa, sb):
                            K = buf.reshape(shp)
                            nkeys = 1 if len(shp) == 1 else shp[0]
                            B = blocks[0] if nkeys == 1 else blocks[np.arange(nkeys) % 16]
                            case = {'kind': 'reinterpreted-key-bytes', 'buffer': bname, 'first_shape': list(sa), 'second_shape': list(sb), 'mode': 'dec' if dec else 'enc', 'at_des': at_des}
                            col.evaluations += 1; col.states += 1; col.transitions += 1
                            try:
                                got = np.asarray((des.decrypt if dec else des.encrypt)(B, K, at_des=at_des))
                            except Exception as e:
                                col.violation('C06/history/raised', 'key bytes %s as %s, at_des=%d: %s: %s' % (bname, shp, at_des, type(e).__name__, e), case); break
                            rows = np.atleast_2d(K)
                            exp = np.array([R.tdes_trace([int(x) for x in np.atleast_2d(B)[i]], sched_of(rows[i]), dec, at_des)[(at_des, 15, 9)] for i in range(nkeys)], dtype=np.uint8)
                            if nkeys == 1 and len(shp) == 1: exp = exp[0]
                            outs.append((got, exp, shp))
                        if len(outs) == 2:
                            col.nontrivial += 1
                            got, exp, shp = outs[1]
                            if got.shape != exp.shape or not np.array_equal(got, exp):
                                col.violation('C06/history/reinterpreted-key-bytes', '%s with the %s key bytes given as %s right after a call that gave the same bytes as %s (at_des=%d): result %s, FIPS 46-3 for the keys as given: %s'
                                              % ('decrypt' if dec else 'encrypt', bname, list(sb), list(sa), at_des, np.atleast_2d(got)[-1].tolist() if got.ndim else got, np.atleast_2d(exp)[-1].tolist()), case)
                            got, exp, shp = outs[0]
                            if got.shape != exp.shape or not np.array_equal(got, exp):
                                col.violation('C06/history/reinterpreted-key-bytes', '%s with the %s key bytes given as %s (at_des=%d) differs from FIPS 46-3' % ('decrypt' if dec else 'encrypt', bname, list(sa), at_des), case)


def _weight_inputs(np, nwords, bits):
    """All inputs (as nwords words of `bits` bits) with Hamming weight <=2 or >= width-2, plus single-active-word values."""
    width = nwords * bits
    vals = [0]
    for i in range(width):
        vals.append(1 << i)
        for j in range(i + 1, width):
            vals.append((1 << i) | (1 << j))
    full = (1 << width) - 1
    vals += [full ^ v for v in vals]
    for w in range(nwords):
        for v in range(1 << bits):
            vals.append(v << (bits * (nwords - 1 - w)))
            vals.append(full ^ (v << (bits * (nwords - 1 - w))))
    vals = sorted(set(vals))
    arr = np.array([[(v >> (bits * (nwords - 1 - w))) & ((1 << bits) - 1) for w in range(nwords)] for v in vals], dtype=np.uint8)
    return arr


def _prims(col, des, R, np):
    def check(name, f, inputs, in_bits, ref_f):
        inp0 = inputs.copy()
        got = f(inputs); col.transitions += 1
        exp = np.array([ref_f(list(int(v) for v in row)) for row in inputs], dtype=np.uint8)
        n = len(inputs); col.evaluations += n; col.states += n; col.nontrivial += int((inputs != 0).any(axis=1).sum())
        if got.shape != exp.shape or not np.array_equal(got, exp):
            bad = (got != exp).any(axis=1) if got.shape == exp.shape else np.ones(n, bool); j = int(np.argmax(bad))
            col.violations_n('C06/prim/%s' % name, int(bad.sum()), '%s(%s) = %s, FIPS gives %s' % (name, inputs[j].tolist(), np.asarray(got)[j].tolist() if got.shape == exp.shape else got.shape, exp[j].tolist()),
                             {'primitive': name, 'input': inputs[j].tolist()})
        if not np.array_equal(inputs, inp0):
            col.violation('C06/prim/caller-array-modified', '%s modified its argument' % name, {'primitive': name})
        # single row / 3-d view
        g1 = f(inputs[len(inputs) // 2]); col.transitions += 1
        if not np.array_equal(g1, exp[len(inputs) // 2]):
            col.violation('C06/prim/%s' % name, '%s on a 1-d input differs' % name, {'primitive': name, 'input': inputs[len(inputs) // 2].tolist()})
        return got
    b8 = _weight_inputs(np, 8, 8); b4 = _weight_inputs(np, 4, 8); n4 = _weight_inputs(np, 8, 4)
    ip = check('initial_permutation', des.initial_permutation, b8, 8, lambda r: R.pack(R.perm(R.bits(r), R.IP)))
    check('final_permutation', des.final_permutation, b8, 8, lambda r: R.pack(R.perm(R.bits(r), R.FP)))
    check('expansive_permutation', des.expansive_permutation, b4, 8, lambda r: R.pack(R.perm(R.bits(r), R.E), 6))
    check('permutation_p', des.permutation_p, n4, 4, lambda r: R.pack(R.perm(R.bits(r, 4), R.P)))
    check('inv_permutation_p', des.inv_permutation_p, b4, 8, lambda r: R.pack(R.perm(R.bits(r), R.INVP), 4))
    if not np.array_equal(des.final_permutation(des.initial_permutation(b8)), b8) or not np.array_equal(des.initial_permutation(des.final_permutation(b8)), b8):
        col.violation('C06/prim/ip-fp-inversion', 'FP o IP != id', {})
    if not np.array_equal(des.inv_permutation_p(des.permutation_p(n4)), n4) or not np.array_equal(des.permutation_p(des.inv_permutation_p(b4)), b4):
        col.violation('C06/prim/p-invp-inversion', 'P^-1 o P != id', {})
    # S-boxes: all 8 x 64 inputs, in a layout where the 8 boxes see different values in the same row
    i = np.arange(64)[:, None]; j = np.arange(8)[None, :]
    for mult in (1, 7, 13):
        s = ((i * mult + 7 * j) % 64).astype(np.uint8)
        check('sboxes', des.sboxes, s, 6, lambda r: [R.sbox(jj, v) for jj, v in enumerate(r)])
    # add_round_key
    a = np.repeat(np.arange(64), 64); b = np.tile(np.arange(64), 64)
    S = ((a[:, None] + j) % 64).astype(np.uint8); K = ((b[:, None] + 5 * j) % 64).astype(np.uint8)
    got = des.add_round_key(S, K); col.transitions += 1; col.evaluations += len(S); col.states += len(S); col.nontrivial += len(S)
    if not np.array_equal(got, S ^ K):
        col.violation('C06/prim/add_round_key', 'xor mismatch', {})
    col.sample({'primitive': 'initial_permutation', 'inputs': int(len(b8)), 'example_in': b8[100].tolist(), 'example_out': ip[100].tolist()}, limit=1)


def _errors(col, des, np):
    k = np.arange(8, dtype=np.uint8); p = np.arange(8, dtype=np.uint8)
    cases = [dict(at_round=16), dict(at_round=-1), dict(after_step=10), dict(at_des=1)]
    for kw in cases:
        col.evaluations += 1; col.states += 1; col.transitions += 1; col.nontrivial += 1
        try:
            des.encrypt(p, k, **kw)
            col.violation('C06/out-of-domain-accepted', 'encrypt accepted %r for single DES' % kw, kw)
        except (ValueError, TypeError):
            pass


def _layouts(ctx, col, des, np):
    """Memory layout / integer dtype of the block and key arrays is not part of their value: for every key form (master and pre-expanded, several
    keys paired with several blocks) Fortran-ordered, strided, reversed and int64 arrays must give what their C-contiguous uint8 copy gives
    (those results are pinned against FIPS 46-3 by the sweeps)."""
    from mc.common import rng_for
    rng = rng_for(ctx['seed'], 'c06-layouts')
    n = 6
    blocks = rng.randint(0, 256, (n, 8)).astype(np.uint8)
    for kf in KEYFORMS:
        if kf in (8, 16, 24):
            keys = rng.randint(0, 256, (n, kf)).astype(np.uint8)
        else:
            masters = rng.randint(0, 256, (n, kf // 16)).astype(np.uint8)
            keys = np.stack([np.concatenate([des.key_schedule(m[8 * p:8 * p + 8]).reshape(-1) for p in range(kf // 128)]) for m in masters]).astype(np.uint8)
        for mode in ('enc', 'dec'):
            f = des.encrypt if mode == 'enc' else des.decrypt
            stops = [dict(), dict(at_round=0, after_step=3), dict(at_round=7, after_step=5), dict(at_round=15, after_step=8)]
            if kf not in (8, 128): stops += [dict(at_des=1, at_round=3, after_step=2), dict(at_des=0)]
            for kw in stops:
                try:
                    ref = f(blocks, keys, **kw)
                except Exception as e:
                    col.violation('C06/layout/raised', 'key form %d %s %s on contiguous arrays: %s: %s' % (kf, mode, kw, type(e).__name__, e), {'kf': kf, 'mode': mode, 'stop': kw}); continue
                wb = np.zeros((2 * n, 16), np.uint8); wk = np.zeros((2 * n, 2 * keys.shape[1]), np.uint8); wb[::2, ::2] = blocks; wk[::2, ::2] = keys
                views = {'fortran': (np.asfortranarray(blocks), np.asfortranarray(keys), ref), 'strided': (wb[::2, ::2], wk[::2, ::2], ref), 'reversed': (blocks[::-1], keys[::-1], ref[::-1]),
                         'int64': (blocks.astype('int64'), keys.astype('int64'), ref)}
                for vn, (b, k, exp) in views.items():
                    col.evaluations += 1; col.states += 1; col.transitions += 1; col.nontrivial += 1
                    case = {'view': vn, 'kf': kf, 'mode': mode, 'stop': kw}
                    try:
                        got = f(b, k, **kw)
                    except Exception as e:
                        col.violation('C06/layout/raised', 'key form %d %s %s on %s arrays: %s: %s' % (kf, mode, kw, vn, type(e).__name__, e), case); continue
                    if np.asarray(got).shape != np.asarray(exp).shape or not np.array_equal(got, exp):
                        col.violation('C06/layout', 'key form %d bytes, %s at %s: result on %s block/key arrays differs from the result on their C-contiguous uint8 copies' % (kf, mode, kw or 'end', vn), case)
    col.sample({'check': 'memory layouts', 'key_forms': list(KEYFORMS), 'views': ['fortran', 'strided', 'reversed', 'int64']}, limit=1)
