"""C18 - preprocesses compute their definition row by row, without integer wrap-around (E3)."""
PROPERTY = 'C18'
LEVEL = 'model_checking'
ENGINE = 'E3'
RULE = ('structure-complete enumeration: combination operators {Product, CenteredProduct(given mean), CenteredProduct(batch mean), Difference, AbsoluteDifference} x EVERY (frame_1, frame_2, mode, distance) combination '
        'of a 9-entry frame menu (Ellipsis, slices, stepped slice, index lists, single-point list, the ints 0 and 2, range, ndarray) x mode {full, same} x distance {None, 1..len+1} - every legal combination is executed, '
        'every illegal one must be refused at construction - x trace dtypes {uint8, int8, uint16, int16, int32, int64, float32, float64} x precision {float32, float64} on a row pool holding the extreme values of each '
        'dtype; every ordered selection of 1..4 rows of a 4-row pool as the batch (64 batch compositions) for a configuration subset; first-order preprocesses (square, center, standardize, CenterOn incl. integer means, '
        'StandardizeOn, ToPower 1..4, serialize_bit, fft_modulus); time-frequency preprocesses x 3 modes x frame choices on even and odd lengths against a naive DFT. A case = one (configuration, dtype, precision, batch); '
        'non-trivial = a case whose expected output contains a value that would wrap in the input dtype')
ASSUMPTIONS = ['numpy trusted (IEEE correctly rounded + - *)', 'values exactly representable in the promoted dtype: results must be BIT-IDENTICAL to the exact result rounded once to the output dtype',
               'batch-mean / batch-std variants and the FFT family are compared with a tolerance (their definition involves inexact means / transcendental factors)',
               'Xcorr on an odd frame length returns n-1 samples (default-length inverse real transform): the reference implements that formula, pinned by the stable suite']
TRUSTED = ['the pair enumeration and exact-arithmetic reference in this file (plain Python ints/Fractions)', 'naive O(n^2) DFT in Python complex arithmetic']
TECHNIQUE = 'structure-complete enumeration of all frame/mode/distance/dtype/precision configurations and batch compositions on the real preprocesses against an exact-arithmetic pair-list reference and a naive DFT'
LEVEL_TEXT = ('Every legal (frame_1, frame_2, mode, distance) combination of the menu is executed for every operator, trace dtype and precision on rows containing the extreme values of each dtype; the output must be the '
              'documented pair list in the documented order with each entry equal, bit for bit, to the exact product/difference rounded once to the output dtype (so any wrap-around or missing promotion shows), illegal '
              'combinations must be refused, and row r of every one of the 64 batch compositions must equal the result for that row alone. First-order and time-frequency preprocesses are compared with their formulas.')
LEVEL_NOTE = 'Trusted: numpy arithmetic, the references in this file. Bound: traces of 6-7 samples, 4-row pools.'
DESIGN_REF = 'DESIGN.md section 3, C18'

OPS = ('Product', 'CenteredProduct', 'CenteredProductBatch', 'Difference', 'AbsoluteDifference')
DTYPES = ('uint8', 'int8', 'uint16', 'int16', 'int32', 'int64', 'float32', 'float64')
L = 6
POOLS = {'uint8': [0, 255, 1, 254, 17, 128], 'int8': [-128, 127, 0, -1, 64, -64], 'uint16': [0, 65535, 1, 32768, 255, 256], 'int16': [-32768, 32767, 0, -1, 255, -256],
         'int32': [-32768, 32767, 0, -1, 255, -256], 'int64': [-32768, 32767, 0, -1, 255, -256], 'float32': [-32768, 32767, 0.5, -1.25, 255, -256], 'float64': [-32768, 32767, 0.5, -1.25, 255, -256]}


def bound(tier):
    return {'trace_length': L, 'frames': 9, 'distances': [None] + list(range(1, L + 2)), 'batch_compositions': 64}


def shards(tier, seed):
    out = [{'name': 'comb-%s-%s' % (op, dt), 'kind': 'comb', 'op': op, 'dt': dt, 'cost': 5} for op in OPS for dt in DTYPES]
    out.append({'name': 'first-order', 'kind': 'first', 'cost': 3})
    out.append({'name': 'time-freq', 'kind': 'tf', 'cost': 4})
    return out


def _frames(np):
    return [('ellipsis', ...), ('slice', slice(0, 3)), ('step', slice(1, 6, 2)), ('list', [0, 2, 3]), ('single', [4]), ('int2', 2), ('int0', 0), ('range', range(1, 4)), ('ndarray', np.array([5, 1, 1])),
            ('range-desc', range(2, -1, -1)), ('range-neg', range(-3, 0))]          # ranges are index lists: descending down to sample 0, counted from the end


def _idx(frame, n):
    if frame is ...: return list(range(n))
    if isinstance(frame, slice): return list(range(*frame.indices(n)))
    if isinstance(frame, int): return [frame]
    return [int(i) for i in frame]


def _pairs(f1, f2, mode, dist, n):
    """The documented pair list: frame x frame (i-major) / all i<=j of one frame / within a distance / point to point."""
    i1 = _idx(f1, n)
    if dist is not None:
        return [(i1[a], i1[b]) for a in range(len(i1)) for b in range(a, min(a + dist + 1, len(i1)))]
    if mode == 'same':
        return list(zip(i1, _idx(f2, n)))
    if f2 is None:
        return [(i1[a], i1[b]) for a in range(len(i1)) for b in range(a, len(i1))]
    return [(a, b) for a in i1 for b in _idx(f2, n)]


def _legal(f1, f2, mode, dist, n):
    if dist is not None and (mode == 'same' or f2 is not None): return False
    if mode == 'same' and f2 is None: return False
    if dist is not None and (not isinstance(dist, int) or dist < 1): return False
    if mode == 'same' and len(_idx(f1, n)) != len(_idx(f2, n)): return False
    return True


def run_shard(shard, ctx):
    import numpy as np
    from mc.common import Collector
    col = Collector()
    if shard.get('replay_case') is not None:
        c = shard['replay_case']
        if c.get('kind') == 'comb': _comb(col, ctx, np, c['op'], c['dt'], only=c)
        elif c.get('kind') == 'first': _first(col, ctx, np)
        else: _tf(col, ctx, np)
        return col.result()
    if shard['kind'] == 'comb': _comb(col, ctx, np, shard['op'], shard['dt'])
    elif shard['kind'] == 'first': _first(col, ctx, np)
    else: _tf(col, ctx, np)
    return col.result()


def _exact(v, dt):
    from fractions import Fraction as F
    return F(float(v)) if np_kind(dt) == 'f' else F(int(v))


def np_kind(dt):
    import numpy as np
    return np.dtype(dt).kind


def _comb(col, ctx, np, op, dt, only=None):
    import itertools
    from fractions import Fraction as F
    import scared
    ho = scared.preprocesses.high_order
    vals = POOLS[dt]
    rows = np.array([vals, vals[::-1], vals[2:] + vals[:2], [vals[1]] * 3 + [vals[0]] * 3], dtype=dt)
    mean_int = [3, 100, 0, 1, 7, 2] if np_kind(dt) != 'i' else [3, -100, 0, 1, 7, -2]
    frames = _frames(np)
    refused = legal = 0
    wrapping = 0
    info = np.iinfo(dt) if np_kind(dt) in 'iu' else None

    def opf(a, b):
        if op in ('Product', 'CenteredProduct', 'CenteredProductBatch'): return a * b
        if op == 'Difference': return a - b
        return abs(a - b)

    def build(f1, f2, mode, dist, prec, mean=None):
        kw = dict(frame_1=f1, frame_2=f2, mode=mode, distance=dist, precision=prec)
        if op == 'CenteredProduct': return ho.CenteredProduct(mean=mean, **kw)
        if op == 'CenteredProductBatch': return ho.CenteredProduct(**kw)
        return getattr(ho, op)(**kw)

    def expected(batch, P, outdt, mean=None):
        """exact arithmetic, rounded once to the output dtype."""
        out = np.empty((batch.shape[0], len(P)), dtype='float64')
        wraps = 0
        for r in range(batch.shape[0]):
            ex = [_exact(v, dt) for v in batch[r]]
            if mean is not None:
                ex = [e - F(m) for e, m in zip(ex, mean)]
            for j, (a, b) in enumerate(P):
                v = opf(ex[a], ex[b])
                raw = ex[a] - ex[b] if op in ('Difference', 'AbsoluteDifference') else v
                if info is not None and (raw < info.min or raw > info.max): wraps += 1
                if np.dtype(outdt).kind == 'f':
                    out[r, j] = float(np.dtype(outdt).type(float(v))) if np.dtype(outdt) != np.dtype('float64') else float(v)
                else:
                    out[r, j] = float(v)
        return out, wraps

    configs = []
    for (n1, f1) in frames:
        for (n2, f2) in [('none', None)] + frames:
            for mode in ('full', 'same'):
                for dist in [None] + list(range(1, L + 2)):
                    configs.append((n1, f1, n2, f2, mode, dist))
    for (n1, f1, n2, f2, mode, dist) in configs:
        case0 = {'kind': 'comb', 'op': op, 'dt': dt, 'frame_1': n1, 'frame_2': n2, 'mode': mode, 'distance': dist}
        if only and any(only.get(k) != case0[k] for k in ('frame_1', 'frame_2', 'mode', 'distance')): continue
        ok = _legal(f1, f2, mode, dist, L)
        if mode == 'same' and dist is None and (f1 is ... or f2 is ...):
            # point-to-point on Ellipsis: the frame has no length before the traces are known; the implementation refuses it at construction
            # (TypeError) - the documentation does not say either way: counted, not judged
            col.count('same_mode_on_ellipsis_not_judged'); continue
        try:
            build(f1, f2, mode, dist, 'float32', mean=np.array(mean_int, dtype='float64'))
            built = True
        except Exception as e:
            built = False; err = '%s: %s' % (type(e).__name__, e)
        col.evaluations += 1; col.states += 1
        if ok and not built:
            col.violation('C18/%s/legal-configuration-refused' % op, '%s(frame_1=%s, frame_2=%s, mode=%s, distance=%s) refused: %s' % (op, n1, n2, mode, dist, err), case0); continue
        if not ok:
            if built:
                col.violation('C18/%s/illegal-configuration-accepted' % op, '%s(frame_1=%s, frame_2=%s, mode=%s, distance=%s) was accepted although the documentation forbids it' % (op, n1, n2, mode, dist), case0)
            refused += 1; continue
        legal += 1
        P = _pairs(f1, f2, mode, dist, L)
        for prec in ('float32', 'float64'):
            means = [None]
            if op == 'CenteredProduct':
                means = [np.array(mean_int, dtype='float64'), np.array(mean_int, dtype='float32')] + ([np.array(mean_int, dtype=dt)] if np_kind(dt) in 'iu' and max(mean_int) <= np.iinfo(dt).max and min(mean_int) >= np.iinfo(dt).min else [])
            for mean in means:
                pp = build(f1, f2, mode, dist, prec, mean=mean)
                case = dict(case0, precision=prec, mean_dtype=None if mean is None else str(mean.dtype))
                label = '%s(frame_1=%s, frame_2=%s, mode=%s, distance=%s, precision=%s%s) on %s' % (op, n1, n2, mode, dist, prec, '' if mean is None else ', mean dtype %s' % mean.dtype, dt)
                try:
                    out = pp(rows)
                except Exception as e:
                    col.violation('C18/%s/raised' % op, '%s raised %s: %s' % (label, type(e).__name__, e), case); continue
                col.transitions += 1
                if np_kind(dt) in 'iu' and np.dtype(dt).itemsize <= 2 and not (out.dtype.kind == 'f' and out.dtype.itemsize >= 4):
                    col.violation('C18/%s/not-promoted' % op, '%s: output dtype %s for %s input (must be at least float32)' % (label, out.dtype, dt), case)
                if op == 'CenteredProductBatch':
                    m = [sum(F(float(v)) if np_kind(dt) == 'f' else F(int(v)) for v in rows[:, s]) / rows.shape[0] for s in range(L)]
                    exp, wr = expected(rows, P, 'float64', mean=m)
                    if out.shape != exp.shape:
                        col.violation('C18/%s/shape' % op, '%s: output shape %s, documented pair list has %d pairs' % (label, out.shape, len(P)), case); continue
                    scale = max(1.0, float(np.abs(exp).max()))
                    atol = (2e-4 if out.dtype == np.float32 else 1e-9) * scale
                    if not np.allclose(out.astype('float64'), exp, rtol=0, atol=atol):
                        r, j = (int(t) for t in np.argwhere(~np.isclose(out.astype('float64'), exp, rtol=0, atol=atol))[0])
                        col.violation('C18/%s/value' % op, '%s: row %d pair %s = %r, centred on the mean of exactly this batch gives %r' % (label, r, P[j], float(out[r, j]), float(exp[r, j])), case)
                    wrapping += wr
                    continue
                exp, wr = expected(rows, P, out.dtype, mean=None if mean is None else [float(v) for v in mean])
                wrapping += wr
                if wr: col.nontrivial += 1
                if out.shape != exp.shape:
                    col.violation('C18/%s/shape' % op, '%s: output shape %s, documented pair list has %d pairs' % (label, out.shape, len(P)), case); continue
                if not np.array_equal(out.astype('float64'), exp):
                    r, j = (int(t) for t in np.argwhere(out.astype('float64') != exp)[0])
                    a, b = P[j]
                    col.violation('C18/%s/value' % op, '%s: row %d output[%d] = %r; documented pair %d is (sample %d, sample %d) = (%r, %r) whose exact result rounded to %s is %r'
                                  % (label, r, j, float(out[r, j]), j, a, b, rows[r, a].item(), rows[r, b].item(), out.dtype, float(exp[r, j])), case)
                col.outcomes.add((op, dt, prec, n1, n2, mode, dist))
    # batch compositions: row r of every ordered selection of 1..4 rows equals the result for that row alone
    subset = [(..., None, 'full', None), (slice(1, 6, 2), [0, 2, 3], 'full', None), ([0, 2, 3], range(1, 4), 'same', None), (..., None, 'full', 2)]
    for (f1, f2, mode, dist) in ([] if only else subset):
        mean = np.array(mean_int, dtype='float64')
        pp = build(f1, f2, mode, dist, 'float32', mean=mean)
        alone = [pp(rows[i:i + 1])[0] for i in range(4)] if op != 'CenteredProductBatch' else None
        for k in range(1, 5):
            for sel in itertools.permutations(range(4), k):
                batch = rows[list(sel)]
                out = pp(batch)
                col.evaluations += 1; col.transitions += 1
                if op == 'CenteredProductBatch':
                    P = _pairs(f1, f2, mode, dist, L)
                    m = [sum(_exact(v, dt) for v in batch[:, s]) / batch.shape[0] for s in range(L)]
                    exp, _ = expected(batch, P, 'float64', mean=m)
                    scale = max(1.0, float(np.abs(exp).max()))
                    if out.shape != exp.shape or not np.allclose(out.astype('float64'), exp, rtol=0, atol=2e-4 * scale):
                        col.violation('C18/%s/batch-mean' % op, 'CenteredProduct without mean on batch rows %s of the %s pool: not centred on the mean of exactly this batch' % (list(sel), dt),
                                      {'kind': 'comb', 'op': op, 'dt': dt, 'batch': list(sel)})
                    continue
                for pos, i in enumerate(sel):
                    if not np.array_equal(out[pos], alone[i], equal_nan=True):
                        col.violation('C18/%s/row-dependence' % op, '%s on batch rows %s (%s pool): output row %d differs from the result for that row alone' % (op, list(sel), dt, pos),
                                      {'kind': 'comb', 'op': op, 'dt': dt, 'batch': list(sel)})
                        break
    # memory layout of the batch is not part of its value: Fortran-ordered / strided / reversed batches give what their C-contiguous copy gives
    for (f1, f2, mode, dist) in ([] if only else subset):
        pp = build(f1, f2, mode, dist, 'float32', mean=np.array(mean_int, dtype='float64'))
        wide = np.zeros((8, 2 * L), dtype=dt); wide[::2, ::2] = rows
        for vn, a in {'fortran': np.asfortranarray(rows), 'strided': wide[::2, ::2], 'reversed-rows': rows[::-1]}.items():
            col.evaluations += 1; col.transitions += 2
            try:
                g1 = pp(a); g2 = pp(np.ascontiguousarray(a))
            except Exception as e:
                col.violation('C18/%s/layout-raised' % op, '%s on a %s batch: %s: %s' % (op, vn, type(e).__name__, e), {'kind': 'comb', 'op': op, 'dt': dt, 'view': vn}); continue
            if g1.shape != g2.shape or not np.array_equal(g1, g2, equal_nan=True):
                col.violation('C18/%s/layout' % op, '%s on a %s batch (%s) differs from the result on its C-contiguous copy' % (op, vn, dt), {'kind': 'comb', 'op': op, 'dt': dt, 'view': vn})
    col.count('legal_configurations', legal); col.count('refused_configurations', refused); col.count('entries_that_would_wrap_in_the_input_dtype', wrapping)
    col.sample({'operator': op, 'dtype': dt, 'rows': rows.tolist()[:2], 'legal_configurations': legal, 'refused': refused}, limit=1)
    if not only:
        col.guard(legal > 100 and refused > 100, 'vacuity: legal=%d refused=%d' % (legal, refused))
        if np_kind(dt) in 'iu' and np.dtype(dt).itemsize <= 2 and op != 'CenteredProductBatch':
            col.guard(wrapping > 0, 'vacuity: no entry would wrap in %s' % dt)


def _first(col, ctx, np):
    from fractions import Fraction as F
    import scared
    pr = scared.preprocesses
    for dt in DTYPES:
        vals = POOLS[dt]
        rows = np.array([vals, vals[::-1], vals[2:] + vals[:2]], dtype=dt)
        ex = [[_exact(v, dt) for v in r] for r in rows]

        def cmp(name, out, exp, exact=True, tol=1e-5):
            col.evaluations += 1; col.states += 1; col.transitions += 1
            if callable(out):
                try:
                    out = out()
                except Exception as e:
                    col.violation('C18/first-order/%s/raised' % name, '%s on %s traces raised %s: %s' % (name, dt, type(e).__name__, str(e)[:160]), {'kind': 'first', 'name': name, 'dt': dt}); return
            exp = np.array(exp, dtype='float64')
            o = np.asarray(out).astype('float64')
            if o.shape != exp.shape:
                col.violation('C18/first-order/%s/shape' % name, '%s on %s: shape %s expected %s' % (name, dt, o.shape, exp.shape), {'kind': 'first', 'name': name, 'dt': dt}); return
            if np_kind(dt) in 'iu' and np.dtype(dt).itemsize <= 2 and name != 'serialize_bit' and not (np.asarray(out).dtype.kind == 'f' and np.asarray(out).dtype.itemsize >= 4):
                col.violation('C18/first-order/%s/not-promoted' % name, '%s on %s returns dtype %s' % (name, dt, np.asarray(out).dtype), {'kind': 'first', 'name': name, 'dt': dt})
            if exact:
                tgt = np.asarray(out).dtype
                expr = exp.astype(tgt).astype('float64') if tgt.kind == 'f' else exp
                good = np.array_equal(o, expr)
            else:
                scale = max(1.0, float(np.abs(exp).max()))
                good = np.allclose(o, exp, rtol=0, atol=tol * scale)
            if not good:
                idx = tuple(int(t) for t in np.argwhere(~np.isclose(o, exp, rtol=0, atol=0 if exact else tol * max(1.0, float(np.abs(exp).max()))))[0]) if o.size else ()
                col.violation('C18/first-order/%s/value' % name, '%s on %s: output%s=%r, formula gives %r (input %r)' % (name, dt, list(idx), float(o[idx]), float(exp[idx]), rows[idx[0], idx[1] % L].item() if len(idx) == 2 else None),
                              {'kind': 'first', 'name': name, 'dt': dt})
        cmp('square', lambda: pr.square(rows), [[float(v * v) for v in r] for r in ex])
        for p in (1, 2, 3, 4):
            for prec in ('float32', 'float64'):
                cmp('ToPower(%d)' % p, lambda: pr.ToPower(p, precision=prec)(rows), [[float(v ** p) for v in r] for r in ex], exact=(prec == 'float64' or p <= 2), tol=1e-6)
        means = [np.array([3, 100, 0, 1, 7, 2], dtype='float64'), np.array([3, 100, 0, 1, 7, 2], dtype='float32')]
        if np_kind(dt) in 'iu':
            means.append(np.array([3, 100, 0, 1, 7, 2], dtype=dt))
            means.append(np.full(L, 128 if np.iinfo(dt).max >= 128 else 100, dtype=dt))           # e.g. the ADC mid-scale, stored in the traces' own integer type
        for mean in means:
            for prec in ('float32', 'float64'):
                cmp('CenterOn(%s mean)' % mean.dtype, lambda: pr.CenterOn(mean=mean, precision=prec)(rows), [[float(v - F(float(m))) for v, m in zip(r, mean)] for r in ex])
        std = np.array([2, 4, 1, 8, 0.5, 16], dtype='float64')
        cmp('StandardizeOn', lambda: pr.StandardizeOn(mean=means[0], std=std, precision='float64')(rows), [[float((v - F(float(m))) / F(float(s))) for v, m, s in zip(r, means[0], std)] for r in ex], exact=False, tol=1e-9)
        for mean in means[2:]:
            # a mean stored in the traces' own integer type (e.g. the ADC mid-scale): the subtraction must not be done in that type
            cmp('StandardizeOn(%s mean)' % mean.dtype, lambda: pr.StandardizeOn(mean=mean, std=std, precision='float64')(rows), [[float((v - F(float(m))) / F(float(s))) for v, m, s in zip(r, mean, std)] for r in ex], exact=False, tol=1e-9)
            cmp('StandardizeOn(%s mean, batch std)' % mean.dtype, lambda: pr.StandardizeOn(mean=mean, precision='float64')(rows),
                ((rows.astype('float64') - mean.astype('float64')) / rows.astype('float64').std(axis=0)) if np.all(rows.astype('float64').std(axis=0) > 0) else None, exact=False, tol=1e-9) if np.all(rows.astype('float64').std(axis=0) > 0) else None
        n = rows.shape[0]
        cm = [sum(r[s] for r in ex) / n for s in range(L)]
        cmp('center', lambda: pr.center(rows), [[float(v - cm[s]) for s, v in enumerate(r)] for r in ex], exact=False, tol=2e-6)
        cv = [sum((r[s] - cm[s]) ** 2 for r in ex) / n for s in range(L)]
        if all(v > 0 for v in cv):
            cmp('standardize', lambda: pr.standardize(rows), [[float(v - cm[s]) / float(cv[s]) ** 0.5 for s, v in enumerate(r)] for r in ex], exact=False, tol=2e-6)
        # a preprocess object is applied to every batch of a Container: the SAME StandardizeOn / CenterOn instance on three different batches (4 rows, 3 other rows, 2 rows);
        # every output is the formula on exactly that batch (what is not given - mean and/or std - is the statistic of the current batch, never of an earlier one)
        f64 = rows.astype('float64')
        nr_ = f64.shape[0]
        batches = [f64, f64[[nr_ - 1, 1 % nr_, 0]] * 0.5 + 1.0, f64[[2 % nr_, 0]] + 7.0]
        for label, kw in (('StandardizeOn()', {}), ('StandardizeOn(mean)', {'mean': means[0]}), ('StandardizeOn(std)', {'std': std})):
            inst = pr.StandardizeOn(precision='float64', **kw)
            for bi_, b in enumerate(batches):
                m_ = kw.get('mean', b.mean(axis=0)); s_ = kw.get('std', b.std(axis=0))
                if np.any(np.asarray(s_) == 0): continue
                cmp('%s reused, batch %d' % (label, bi_ + 1), lambda: inst(b.astype(dt) if bi_ == 0 else b), ((b.astype(dt).astype('float64') if bi_ == 0 else b) - m_) / s_, exact=False, tol=2e-6)
            if getattr(inst, 'mean', None) is not kw.get('mean') or getattr(inst, 'std', None) is not kw.get('std'):
                col.violation('C18/first-order/StandardizeOn/configuration-changed', '%s: the mean / std configuration of the instance changed by being applied to batches' % label, {'kind': 'first', 'name': label, 'dt': dt})
        if dt == 'uint8':
            cmp('serialize_bit', lambda: pr.serialize_bit(rows), [[(int(v) >> (7 - b)) & 1 for v in r for b in range(8)] for r in rows])
        import cmath
        nf = (L + 1) // 2
        cmp('fft_modulus', lambda: pr.fft_modulus(rows), [[abs(sum(complex(float(v)) * cmath.exp(-2j * cmath.pi * k * t / L) for t, v in enumerate(r))) for k in range(nf)] for r in rows], exact=False, tol=1e-5 if dt == 'float32' else 1e-9)
    col.nontrivial += 8
    col.sample({'first_order': 'square, ToPower(1..4), CenterOn (float and integer means), StandardizeOn, center, standardize, serialize_bit, fft_modulus', 'dtypes': list(DTYPES)}, limit=1)


def _tf(col, ctx, np):
    import cmath
    import scared
    from mc.common import rng_for
    ho = scared.preprocesses.high_order

    def rfft(x):
        n = len(x)
        return [sum(complex(v) * cmath.exp(-2j * cmath.pi * k * t / n) for t, v in enumerate(x)) for k in range(n // 2 + 1)]

    def irfft(a):
        m = len(a); n = 2 * (m - 1)
        if n == 0: return []
        out = []
        for t in range(n):
            acc = a[0].real
            for k in range(1, m - 1):
                acc += 2 * (a[k] * cmath.exp(2j * cmath.pi * k * t / n)).real
            acc += (a[m - 1].real) * (-1) ** t
            out.append(acc / n)
        return out

    def fht(x):
        return [f.real - f.imag for f in rfft(x)]

    ops = {
        'Xcorr': lambda a, b: irfft([fa.conjugate() * fb for fa, fb in zip(rfft(a), rfft(b))]),
        'WindowFFT': lambda a, b: [abs(fa.conjugate() * fb) for fa, fb in zip(rfft(a), rfft(b))],
        'WindowFHT': lambda a, b: [x * y for x, y in zip(fht(a), fht(b))],
        'MaxCorr': lambda a, b: (lambda f: [z.real for z in f] + [z.imag for z in f] + [abs(z) for z in f])(rfft(list(a) + list(b))),
        'ConcatFFT': lambda a, b: [abs(z) ** 2 for z in rfft(list(a) + list(b))],
        'ConcatFHT': lambda a, b: [z ** 2 for z in fht(list(a) + list(b))],
    }
    same_len = ('Xcorr', 'WindowFFT', 'WindowFHT')
    rng = rng_for(ctx['seed'], 'c18tf')
    for length in (6, 7):
        for dt in ('uint8', 'int16', 'float32', 'float64'):
            rows = rng.randint(0, 50, (4, length)).astype(dt)
            rows[:, 0] = [0, 50, 7, 23]
            frames = [(None, None), (slice(0, 4), None), (None, slice(1, 4)), (slice(0, 4), slice(2, 6)), ([0, 2, 3], [1, 4, 5]), (slice(0, 5), slice(1, 6)), (slice(0, 3), slice(2, 6)), (range(0, 5), [4, 3, 2, 1, 0]),
                      (0, None), (None, 0), (4, None), (0, 3), ([0], None), (None, [0, 1])]          # single points given as int (0 is a frame, not "no frame") and frames starting at sample 0
            for name, fn in ops.items():
                for mode in ('raw', 'centered', 'standardized'):
                    for f1, f2 in frames:
                        e1 = f1 if f1 is not None else (f2 if f2 is not None else slice(0, length))
                        e2 = f2 if f2 is not None else (f1 if f1 is not None else slice(0, length))
                        l1 = len(_idx(e1, length)); l2 = len(_idx(e2, length))
                        if name == 'Xcorr' and l1 == 1 and l2 == 1: continue           # the inverse real FFT of a one-bin spectrum is not defined
                        case = {'kind': 'tf', 'name': name, 'mode': mode, 'frame_1': repr(f1), 'frame_2': repr(f2), 'length': length, 'dt': dt}
                        col.evaluations += 1; col.states += 1
                        try:
                            pp = getattr(ho, name)(frame_1=f1, frame_2=f2, mode=mode)
                        except Exception as e:
                            if name in same_len and l1 != l2: continue
                            col.violation('C18/time-freq/%s/ctor-raised' % name, '%s(%r, %r, %s): %s %s' % (name, f1, f2, mode, type(e).__name__, e), case); continue
                        if name in same_len and l1 != l2:
                            col.violation('C18/time-freq/%s/unequal-frames-accepted' % name, '%s accepted frames of lengths %d and %d' % (name, l1, l2), case); continue
                        A = rows[:, _idx(e1, length)].astype('float64'); B = rows[:, _idx(e2, length)].astype('float64')
                        if mode in ('centered', 'standardized'):
                            sa, sb = A.std(axis=0), B.std(axis=0)
                            if mode == 'standardized' and ((sa == 0).any() or (sb == 0).any()): continue
                            A = A - A.mean(axis=0); B = B - B.mean(axis=0)
                            if mode == 'standardized': A = A / sa; B = B / sb
                        try:
                            out = pp(rows)
                        except Exception as e:
                            col.violation('C18/time-freq/%s/raised' % name, '%s(%r, %r, %s) on %s length %d: %s %s' % (name, f1, f2, mode, dt, length, type(e).__name__, e), case); continue
                        col.transitions += 1
                        exp = np.array([fn(list(A[r]), list(B[r])) for r in range(rows.shape[0])], dtype='float64')
                        o = np.asarray(out, dtype='float64')
                        if o.shape != exp.shape:
                            col.violation('C18/time-freq/%s/shape' % name, '%s(%r, %r, %s) on length %d: output shape %s, formula gives %s' % (name, f1, f2, mode, length, o.shape, exp.shape), case); continue
                        scale = max(1.0, float(np.abs(exp).max()))
                        tol = (2e-4 if dt == 'float32' or mode != 'raw' else 1e-9) * scale
                        if not np.allclose(o, exp, rtol=0, atol=tol):
                            r, j = (int(t) for t in np.argwhere(~np.isclose(o, exp, rtol=0, atol=tol))[0])
                            col.violation('C18/time-freq/%s/value' % name, '%s(%r, %r, %s) on %s length %d: row %d output[%d]=%r, naive DFT formula gives %r' % (name, f1, f2, mode, dt, length, r, j, float(o[r, j]), float(exp[r, j])), case)
                        col.nontrivial += 1
                        col.outcomes.add((name, mode, repr(f1), repr(f2), length))
    col.sample({'time_frequency': list(ops), 'modes': ['raw', 'centered', 'standardized'], 'lengths': [6, 7]}, limit=1)
