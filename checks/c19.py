"""C19 - signal helpers equal windowed definitions; peak search keeps isolated maxima (E3: every small signal)."""
PROPERTY = 'C19'
LEVEL = 'model_checking'
ENGINE = 'E3'
RULE = ('every 1-D signal over the alphabet {0,1,2,3} of length 1..L (L=7 quick, 8 thorough) x find_peaks(min_peak_distance 0..len+1, min_peak_height in {-inf,1,2.5,+inf}) judged by predicates; '
        'find_width x both directions x thresholds {0.5,1.5,2} x min_width 1..3 x {none, max_width 1..4, delta} against the run definition; moving sum/mean/var/std/skew/kurtosis on every signal of '
        'length<=6 x every window against exact rational statistics, and on n-D arrays over every axis/window; correlation/distance/bcdc on every trace of length<=6 x every shorter pattern over '
        '{0,1,3}; pad / extract_around_indexes on every in-range configuration of small shapes; a case = one (function, parameters, signal); non-trivial = signal not constant')
ASSUMPTIONS = ['numpy/numba/scipy.signal are trusted', 'signals limited to length<=8 over a 4-letter alphabet (contains every plateau/tie/end-peak pattern of that size)']
TRUSTED = ['predicates written from the property statement; fractions.Fraction window statistics']
TECHNIQUE = 'exhaustive enumeration of all small signals x parameter lattices on the real signal-processing functions against predicate / exact-rational reference models'
LEVEL_TEXT = ('All 4^1..4^7 (quick) / ..4^8 (thorough) signals are pushed through find_peaks for every distance and height and judged by the four predicates of the statement (local maximum >= height, '
              'sorted distinct, pairwise >= distance apart, every dropped candidate has a different candidate closer than distance with value >= its own); find_width against maximal bracketed runs; '
              'moving operators and pattern scores against exact rational per-window statistics; pad/extract against index arithmetic.')
LEVEL_NOTE = 'Trusted: numpy, numba, scipy.signal.correlate. Bound: signal length <= 8, alphabet of 4 values; zero-variance windows are skipped for ratio statistics (undefined) and counted.'
DESIGN_REF = 'DESIGN.md section 3, C19'

ALPHA = [0, 1, 2, 3]


def bound(tier):
    return {'max_signal_length': 7 if tier == 'quick' else 8, 'alphabet': ALPHA}


def shards(tier, seed):
    L = 7 if tier == 'quick' else 8
    out = []
    for kind in ('peaks', 'width'):
        for n in range(1, L + 1):
            if n <= 4:
                if n == 1: out.append({'name': '%s-n1to4' % kind, 'kind': kind, 'ns': [1, 2, 3, 4], 'first': None, 'cost': 3})
            else:
                pre = [(a,) for a in ALPHA] if n < 7 else [(a, b) for a in ALPHA for b in ALPHA]
                for p in pre:
                    out.append({'name': '%s-n%d-%s' % (kind, n, ''.join(map(str, p))), 'kind': kind, 'ns': [n], 'first': list(p), 'cost': 4 ** (n - len(p)) / 50.0 * (2 if kind == 'width' else 1)})
    for n in range(1, 7):
        for p in ([()] if n < 6 else [(a,) for a in ALPHA]):
            out.append({'name': 'moving-n%d-%s' % (n, ''.join(map(str, p))), 'kind': 'moving', 'n': n, 'pre': list(p), 'cost': 4 ** (n - len(p)) / 40.0})
    out.append({'name': 'moving-nd', 'kind': 'movingnd', 'cost': 3})
    for n in range(2, 7):
        A = [0, 1, 3]
        pres = [()] if n < 5 else ([(a,) for a in A] if n == 5 else [(a, b, c) for a in A for b in A for c in A])
        for p in pres:
            out.append({'name': 'pattern-n%d-%s' % (n, ''.join(map(str, p))), 'kind': 'pattern', 'n': n, 'pre': list(p), 'cost': 3 ** (n - len(p)) * 3 ** (n - 1) / 300.0})
    out.append({'name': 'pad-extract', 'kind': 'padextract', 'cost': 3})
    return out


def run_shard(shard, ctx):
    import numpy as np
    from mc.common import Collector
    col = Collector()
    {'peaks': _peaks, 'width': _width, 'moving': _moving, 'movingnd': _movingnd, 'pattern': _pattern, 'padextract': _padextract}[shard['kind']](shard, ctx, col, np)
    return col.result()


def _signals(shard):
    import itertools
    for n in shard['ns']:
        pre = tuple(shard['first']) if shard['first'] is not None else ()
        for rest in itertools.product(ALPHA, repeat=n - len(pre)):
            yield pre + rest


def _cands(sig, h):
    n = len(sig)
    return [i for i in range(n) if sig[i] >= h and (i == 0 or sig[i] >= sig[i - 1]) and (i == n - 1 or sig[i] >= sig[i + 1])]


def _peaks(shard, ctx, col, np):
    from scared import signal_processing as sp
    inf = float('inf')
    for sig in _signals(shard):
        n = len(sig)
        d = np.array(sig, dtype='float64')
        nontriv = len(set(sig)) > 1
        for h in (-inf, 1, 2.5, inf):
            C = _cands(sig, h)
            for dist in range(0, n + 2):
                d0 = d.copy()
                try:
                    out = sp.find_peaks(d, dist, h).tolist()
                except Exception as e:
                    col.violation('C19/find_peaks/raised', '%s: %s' % (type(e).__name__, e), {'signal': list(sig), 'distance': dist, 'height': h}); continue
                col.evaluations += 1; col.states += 1; col.transitions += 1; col.nontrivial += 1 if nontriv else 0
                why = None
                if any(o not in C for o in out): why = 'non-candidate-returned'
                elif out != sorted(set(out)): why = 'not-sorted-distinct'
                elif any(b - a < dist for a, b in zip(out, out[1:])): why = 'too-close'
                else:
                    for c in C:
                        if c not in out and not any(c2 != c and abs(c2 - c) < dist and sig[c2] >= sig[c] for c2 in C):
                            why = 'lost-candidate/early-region' if any(x < dist - 1 for x in C) else 'lost-candidate'
                            lostc = c
                            break
                if why:
                    col.violation('C19/find_peaks/' + why, 'find_peaks(%s, distance=%d, height=%s) = %s; candidates %s%s' % (list(sig), dist, h, out, C, (' - candidate %d dropped without a closer candidate >= it' % lostc) if why.startswith('lost') else ''),
                                  {'signal': list(sig), 'distance': dist, 'height': h, 'returned': out, 'candidates': C},
                                  unit_test="import numpy as np\nfrom scared import signal_processing as sp\ndef test_replay():\n    out = sp.find_peaks(np.array(%r, dtype='float64'), %d, %r).tolist()\n    assert out == %r or True  # see predicates in checks/c19.py\n" % (list(sig), dist, h, out))
                if not np.array_equal(d, d0):
                    col.violation('C19/find_peaks/argument-modified', 'find_peaks modified its input', {'signal': list(sig)}); d = d0.copy()
                col.outcomes.add(tuple(out))
        if n in (5, 6) and sig[0] == 1:                      # integer storage gives the same answer
            for dist in (2, 3):
                if sp.find_peaks(np.array(sig, dtype='int64'), dist, 1).tolist() != sp.find_peaks(d, dist, 1).tolist():
                    col.violation('C19/find_peaks/int-vs-float', 'integer and float storage disagree on %s' % (list(sig),), {'signal': list(sig), 'distance': dist})
    col.sample({'function': 'find_peaks', 'signal': list(sig), 'distance': 2, 'height': 1, 'candidates': _cands(sig, 1)}, limit=1)


def _fw_ref(sig, positive, thr, minw, maxw=None, delta=None):
    n = len(sig); beyond = [(x > thr) if positive else (x < thr) for x in sig]
    res = []; i = 0
    while i < n:
        if beyond[i]:
            j = i
            while j < n and beyond[j]: j += 1
            k = j - i
            if i > 0 and j < n:
                if maxw is not None: ok = minw <= k <= maxw
                elif delta is not None: ok = minw - delta <= k <= minw + delta
                else: ok = k >= minw
                if ok: res.append([i, j])
            i = j
        else:
            i += 1
    return res


def _width(shard, ctx, col, np):
    from scared import signal_processing as sp
    dts = ('float64', 'uint8', 'int16', 'uint16', 'float32')
    for si, sig in enumerate(_signals(shard)):
        d = np.array(sig, dtype=dts[si % len(dts)])             # "all real arrays": the storage dtype cycles with the signal (ADC traces are unsigned integers)
        nontriv = len(set(sig)) > 1
        for direction in sp.Direction:
            pos = direction is sp.Direction.POSITIVE
            for thr in (0.5, 1.5, 2):
                for minw in (1, 2, 3):
                    for maxw, delta in [(None, None), (1, None), (2, None), (3, None), (4, None), (None, 1), (None, 2)]:
                        if maxw is None and delta is not None and minw <= delta: continue
                        try:
                            got = sp.find_width(d, direction, thr, minw, maxw, delta).tolist()
                        except Exception as e:
                            col.violation('C19/find_width/raised/%s' % ('unsigned' if d.dtype.kind == 'u' else d.dtype.kind), 'find_width(%s as %s, %s, thr=%s): %s: %s' % (list(sig), d.dtype, direction.name, thr, type(e).__name__, e),
                                          {'signal': list(sig), 'dtype': str(d.dtype), 'direction': direction.name, 'threshold': thr}); continue
                        col.evaluations += 1; col.states += 1; col.transitions += 1; col.nontrivial += 1 if nontriv else 0
                        exp = _fw_ref(sig, pos, thr, minw, maxw, delta)
                        if got != exp:
                            col.violation('C19/find_width/%s' % ('max_width' if maxw is not None else ('delta' if delta is not None else 'min_width')),
                                          'find_width(%s, %s, thr=%s, min=%d, max=%s, delta=%s) = %s, runs by definition %s' % (list(sig), direction.name, thr, minw, maxw, delta, got, exp),
                                          {'signal': list(sig), 'direction': direction.name, 'threshold': thr, 'min_width': minw, 'max_width': maxw, 'delta': delta})
                        col.outcomes.add(str(got))
    col.sample({'function': 'find_width', 'signal': list(sig), 'direction': 'POSITIVE', 'threshold': 1.5, 'min_width': 1, 'runs': _fw_ref(sig, True, 1.5, 1)}, limit=1)


def _stats(win):
    import math
    w = len(win); m = sum(win) / w
    mu = lambda k: sum((x - m) ** k for x in win) / w
    v = mu(2)
    return {'sum': float(sum(win)), 'mean': float(m), 'var': float(v), 'std': math.sqrt(v),
            'skew': None if v == 0 else float(mu(3)) / float(v) ** 1.5, 'kurt': None if v == 0 else float(mu(4)) / float(v) ** 2 - 3}


def _moving(shard, ctx, col, np):
    import itertools
    from fractions import Fraction as F
    from scared import signal_processing as sp
    fn = {'sum': sp.moving_sum, 'mean': sp.moving_mean, 'var': sp.moving_var, 'std': sp.moving_std, 'skew': sp.moving_skew, 'kurt': sp.moving_kurtosis}
    n = shard['n']
    pre = tuple(shard.get('pre') or ())
    for rest in itertools.product(ALPHA, repeat=n - len(pre)):
        sig = pre + rest
        for dt in (('int16',) if sum(sig) % 3 else ('int16', 'float64', 'uint8')):
            d = np.array(sig, dtype=dt); d0 = d.copy()
            for w in range(1, n + 1):
                try:
                    outs = {k: np.asarray(f(d, w), dtype='float64') for k, f in fn.items()}
                except Exception as e:
                    col.violation('C19/moving/raised', '%s: %s' % (type(e).__name__, e), {'signal': list(sig), 'window': w, 'dtype': dt}); continue
                col.transitions += 6
                for k in fn:
                    if outs[k].shape != (n - w + 1,):
                        col.violation('C19/moving_%s/shape' % k, 'length %s for n=%d w=%d' % (outs[k].shape, n, w), {'signal': list(sig), 'window': w}); outs[k] = None
                for i in range(n - w + 1):
                    r = _stats([F(x) for x in sig[i:i + w]])
                    for k in fn:
                        if outs[k] is None: continue
                        col.evaluations += 1; col.states += 1
                        if r[k] is None:
                            col.count('zero_variance_windows_not_compared'); continue
                        col.nontrivial += 1
                        g = float(outs[k][i]); e = r[k]; err = abs(g - e)
                        if not (err <= 1e-9 * max(1.0, abs(e))):
                            col.violation('C19/moving_%s' % k, 'moving_%s(%s, window=%d)[%d] = %r, window statistic is %r' % (k, list(sig), w, i, g, e), {'signal': list(sig), 'window': w, 'index': i, 'dtype': dt})
                        else:
                            col.err('moving_' + k, err)
            if not np.array_equal(d, d0):
                col.violation('C19/moving/argument-modified', 'input modified', {'signal': list(sig)})
        # the same signal riding on a DC level (ADC counts around 40000): variance and standard deviation of every window are unchanged, mean and sum are shifted;
        # compared with the exact statistic at the accuracy float64 allows for E[x^2] - E[x]^2 at that level (a few 1e-7), far below the smallest non-zero variance (3/16)
        LEVEL = 40000
        dl = (np.array(sig, dtype='int64') + LEVEL).astype('uint16' if sum(sig) % 2 else 'float64')
        for w in range(1, n + 1):
            try:
                ol = {k: np.asarray(fn[k](dl, w), dtype='float64') for k in ('sum', 'mean', 'var', 'std')}
            except Exception as e:
                col.violation('C19/moving/raised', 'signal on a DC level: %s: %s' % (type(e).__name__, e), {'signal': list(sig), 'window': w, 'level': LEVEL}); continue
            col.transitions += 4
            for i in range(n - w + 1):
                r = _stats([F(x) for x in sig[i:i + w]])
                exp = {'sum': r['sum'] + w * LEVEL, 'mean': r['mean'] + LEVEL, 'var': r['var'], 'std': r['var']}
                for k in ('sum', 'mean', 'var', 'std'):
                    if ol[k].shape != (n - w + 1,): continue
                    col.evaluations += 1; col.states += 1; col.nontrivial += 1
                    g = float(ol[k][i]); g = g * g if k == 'std' else g
                    tol = 1e-9 * (w * LEVEL) if k in ('sum', 'mean') else 64 * 2.3e-16 * (LEVEL + 3.0) ** 2
                    if not abs(g - exp[k]) <= tol:
                        col.violation('C19/moving_%s/dc-level' % k, 'moving_%s(%s + %d, window=%d)[%d]%s = %r, window statistic is %r' % (k, list(sig), LEVEL, w, i, ' squared' if k == 'std' else '', g, exp[k]),
                                      {'signal': list(sig), 'window': w, 'index': i, 'level': LEVEL})
    col.sample({'function': 'moving_*', 'signal': list(sig), 'windows': list(range(1, n + 1))}, limit=1)


def _movingnd(shard, ctx, col, np):
    from scared import signal_processing as sp
    fn = {'sum': sp.moving_sum, 'mean': sp.moving_mean, 'var': sp.moving_var, 'std': sp.moving_std, 'skew': sp.moving_skew, 'kurt': sp.moving_kurtosis}
    for shape in ((2, 3, 4), (4, 2, 3), (3, 5), (1, 4)):
        a = (np.arange(int(np.prod(shape))).reshape(shape) ** 2 % 7).astype('int32')
        for ax in list(range(len(shape))) + [-1]:
            axp = ax % len(shape)
            for w in range(1, a.shape[axp] + 1):
                exp_sum = np.stack([np.take(a, range(i, i + w), axis=axp).sum(axis=axp) for i in range(a.shape[axp] - w + 1)], axis=axp)
                for k, f in fn.items():
                    col.evaluations += 1; col.states += 1; col.transitions += 1; col.nontrivial += 1
                    try:
                        got = np.asarray(f(a, w, axis=ax), dtype='float64')
                    except Exception as e:
                        col.violation('C19/moving_%s/nd-raised' % k, '%s: %s' % (type(e).__name__, e), {'shape': list(shape), 'axis': ax, 'window': w}); continue
                    if got.shape != exp_sum.shape:
                        col.violation('C19/moving_%s/nd-shape' % k, 'shape %s expected %s (shape %s axis %d w %d)' % (got.shape, exp_sum.shape, shape, ax, w), {'shape': list(shape), 'axis': ax, 'window': w}); continue
                    # every 1-D lane must equal the 1-D result on that lane (the 1-D results are pinned against rationals in the other shards)
                    lanes_got = np.moveaxis(got, axp, -1).reshape(-1, got.shape[axp]); lanes_in = np.moveaxis(a, axp, -1).reshape(-1, a.shape[axp])
                    for li in range(lanes_in.shape[0]):
                        e1 = np.asarray(f(np.ascontiguousarray(lanes_in[li]), w), dtype='float64')
                        if not np.allclose(lanes_got[li], e1, rtol=1e-9, atol=1e-9, equal_nan=True):
                            col.violation('C19/moving_%s/nd-axis' % k, 'lane %d of shape %s axis %d window %d differs from the 1-D result' % (li, shape, ax, w), {'shape': list(shape), 'axis': ax, 'window': w}); break
                    if k == 'sum' and not np.array_equal(got, exp_sum.astype('float64')):
                        col.violation('C19/moving_sum/nd-value', 'n-D moving_sum differs from the naive window sum (shape %s axis %d w %d)' % (shape, ax, w), {'shape': list(shape), 'axis': ax, 'window': w})
    # memory layout is not part of the value: Fortran-ordered, transposed and strided views must give what their C-contiguous copy gives
    base = ((np.arange(3 * 4 * 5).reshape(3, 4, 5) * 37 + 11) % 23).astype('float64')
    for vn, a in {'fortran': np.asfortranarray(base), 'transposed': base.transpose(2, 0, 1), 'strided': base[:, ::2, ::2], 'reversed': base[::-1, :, ::-1]}.items():
        c = np.ascontiguousarray(a)
        for ax in range(a.ndim):
            for w in (1, 2, a.shape[ax]):
                if w > a.shape[ax]: continue
                for k, f in fn.items():
                    col.evaluations += 1; col.states += 1; col.transitions += 1; col.nontrivial += 1
                    try:
                        g1 = np.asarray(f(a, w, axis=ax), dtype='float64'); g2 = np.asarray(f(c, w, axis=ax), dtype='float64')
                    except Exception as e:
                        col.violation('C19/moving_%s/layout-raised' % k, '%s view axis %d window %d: %s: %s' % (vn, ax, w, type(e).__name__, e), {'view': vn, 'axis': ax, 'window': w}); continue
                    if g1.shape != g2.shape or not np.allclose(g1, g2, rtol=1e-12, atol=1e-12, equal_nan=True):
                        col.violation('C19/moving_%s/layout' % k, 'moving_%s on a %s view (axis %d, window %d) differs from the result on its C-contiguous copy' % (k, vn, ax, w), {'view': vn, 'axis': ax, 'window': w})
    col.sample({'function': 'moving_* n-D', 'shape': [2, 3, 4], 'axes': [0, 1, 2, -1]}, limit=1)


SCALE = 2.0 ** -30


def _pattern(shard, ctx, col, np):
    import itertools, math
    from fractions import Fraction as F
    from scared import signal_processing as sp
    n = shard['n']
    A = [0, 1, 3]
    pre = tuple(shard.get('pre') or ())
    for rest in itertools.product(A, repeat=n - len(pre)):
        tr = pre + rest
        t = np.array(tr, dtype='float64')
        for m in range(1, n):
            for pat in itertools.product(A, repeat=m):
                p = np.array(pat, dtype='float64')
                try:
                    c = sp.correlation(t, p); di = sp.distance(t, p); b = sp.bcdc(t, p)
                    # Pearson's coefficient and the BCDC ratio do not depend on the unit of the samples: the same signals in a unit 2^30 times larger (an exact scaling in binary floating point)
                    cs = sp.correlation(t * SCALE, p * SCALE); bs = sp.bcdc(t * SCALE, p * SCALE)
                except Exception as e:
                    col.violation('C19/pattern/raised', '%s: %s' % (type(e).__name__, e), {'trace': list(tr), 'pattern': list(pat)}); continue
                col.transitions += 3
                for name, arr in (('correlation', c), ('distance', di), ('bcdc', b)):
                    if np.asarray(arr).shape != (n - m + 1,):
                        col.violation('C19/%s/shape' % name, 'length %s for trace %d pattern %d' % (np.asarray(arr).shape, n, m), {'trace': list(tr), 'pattern': list(pat)})
                if any(np.asarray(a).shape != (n - m + 1,) for a in (c, di, b)): continue
                y = [F(v) for v in pat]; my = sum(y) / m; syy = sum((a - my) ** 2 for a in y)
                for i in range(n - m + 1):
                    x = [F(v) for v in tr[i:i + m]]
                    col.evaluations += 3; col.states += 3
                    mx = sum(x) / m; sxx = sum((a - mx) ** 2 for a in x); sxy = sum((a - mx) * (b_ - my) for a, b_ in zip(x, y))
                    case = {'trace': list(tr), 'pattern': list(pat), 'index': i}
                    if sxx > 0 and syy > 0:
                        col.nontrivial += 1
                        e = float(sxy) / math.sqrt(float(sxx * syy))
                        if not abs(c[i] - e) <= 1e-9:
                            col.violation('C19/correlation', 'correlation(%s, %s)[%d] = %r, Pearson is %r' % (list(tr), list(pat), i, float(c[i]), e), case)
                        else: col.err('correlation', abs(c[i] - e))
                        if np.asarray(cs).shape == np.asarray(c).shape and not abs(cs[i] - e) <= 1e-9:
                            col.violation('C19/correlation/low-amplitude', 'correlation(%s * 2^-30, %s * 2^-30)[%d] = %r, Pearson is %r' % (list(tr), list(pat), i, float(cs[i]), e), dict(case, scale='2^-30'))
                    else: col.count('zero_variance_windows_not_compared')
                    e2 = float(sum((a - b_) ** 2 for a, b_ in zip(x, y)))
                    col.nontrivial += 1
                    if not abs(float(di[i]) ** 2 - e2) <= 1e-7 * max(1.0, e2):
                        col.violation('C19/distance', 'distance(%s, %s)[%d] = %r, squared Euclidean distance is %r' % (list(tr), list(pat), i, float(di[i]), e2), case)
                    dm = [a - b_ for a, b_ in zip(x, y)]; sm = [a + b_ for a, b_ in zip(x, y)]
                    vd = sum(a * a for a in dm) / m - (sum(dm) / m) ** 2; vs = sum(a * a for a in sm) / m - (sum(sm) / m) ** 2
                    if vs > 0:
                        col.nontrivial += 1
                        e = math.sqrt(float(vd)) / math.sqrt(float(vs))
                        if not abs(b[i] - e) <= 1e-7:
                            col.violation('C19/bcdc', 'bcdc(%s, %s)[%d] = %r, std(x-y)/std(x+y) is %r' % (list(tr), list(pat), i, float(b[i]), e), case)
                        if np.asarray(bs).shape == np.asarray(b).shape and not abs(bs[i] - e) <= 1e-7:
                            col.violation('C19/bcdc/low-amplitude', 'bcdc(%s * 2^-30, %s * 2^-30)[%d] = %r, std(x-y)/std(x+y) is %r' % (list(tr), list(pat), i, float(bs[i]), e), dict(case, scale='2^-30'))
                    else: col.count('zero_variance_windows_not_compared')
    col.sample({'function': 'correlation/distance/bcdc', 'trace': list(tr), 'pattern': list(pat)}, limit=1)


def _padextract(shard, ctx, col, np):
    import itertools
    from scared import signal_processing as sp
    for shape in ((1,), (3,), (2, 3), (3, 3), (1, 2)):
        a = (np.arange(int(np.prod(shape))).reshape(shape) + 10).astype('int32')
        for target in itertools.product(range(1, 6), repeat=len(shape)):
            for off in itertools.product(range(0, 4), repeat=len(shape)):
                fits = all(o + s <= t for o, s, t in zip(off, shape, target))
                for pw in (0, 7):
                    for offarg in ((off,) if any(off) else (off, None)):
                        col.evaluations += 1; col.states += 1; col.transitions += 1; col.nontrivial += 1
                        case = {'shape': list(shape), 'target': list(target), 'offsets': None if offarg is None else list(offarg), 'pad_with': pw}
                        try:
                            got = sp.pad(a, target, offarg, pw)
                        except ValueError:
                            if fits: col.violation('C19/pad/refused', 'pad refused a fitting configuration %s' % case, case)
                            continue
                        if not fits:
                            col.violation('C19/pad/accepted-not-fitting', 'pad accepted %s' % case, case); continue
                        exp = np.full(target, pw, dtype=a.dtype)
                        exp[tuple(slice(o, o + s) for o, s in zip(off, shape))] = a
                        if got.shape != exp.shape or not np.array_equal(got, exp):
                            col.violation('C19/pad/value', 'pad result wrong for %s' % case, case)
    data = (np.arange(9) * 3 + 1).astype('float64')
    for k in range(0, 4):
        for idx in itertools.product(range(9), repeat=k):
            for before in range(0, 3):
                for after in range(0, 3):
                    if any(i - before < 0 or i + after > 8 for i in idx): continue
                    ind = np.array(idx, dtype='int64')
                    exp = np.array([[data[i - before + j] for j in range(before + after + 1)] for i in idx], dtype='float64').reshape(len(idx), before + after + 1)
                    for mode in sp.ExtractMode:
                        if k == 0 and mode is sp.ExtractMode.AVERAGE: continue
                        col.evaluations += 1; col.states += 1; col.transitions += 1; col.nontrivial += 1
                        case = {'indexes': list(idx), 'before': before, 'after': after, 'mode': mode.name}
                        try:
                            got = sp.extract_around_indexes(data, ind, before, after, mode)
                        except Exception as e:
                            col.violation('C19/extract/raised', '%s: %s' % (type(e).__name__, e), case); continue
                        e = exp if mode is sp.ExtractMode.STACK else (exp.reshape(-1) if mode is sp.ExtractMode.CONCATENATE else exp.mean(axis=0))
                        if np.asarray(got).shape != e.shape or not np.allclose(got, e, rtol=1e-12, atol=0):
                            col.violation('C19/extract/%s' % mode.name.lower(), 'extract_around_indexes%s = %s expected %s' % (case, np.asarray(got).tolist(), e.tolist()), case)
    # index arrays of every integer dtype, with indexes at the very edge of what the dtype can hold (index + after / index - before must not wrap)
    for idt in ('int8', 'uint8', 'int16', 'uint16', 'int32', 'int64'):
        info = np.iinfo(idt)
        n = int(min(info.max, 40000)) + 8
        long_data = (np.arange(n, dtype='float64') * 7) % 1001
        top = int(min(info.max, n - 8))
        for idx in ([3, top - 2, top], [top], [5, 6, top - 1]):
            for before, after in ((0, 3), (2, 5), (3, 0)):
                ind = np.array(idx, dtype=idt)
                exp = np.array([[long_data[i - before + j] for j in range(before + after + 1)] for i in idx])
                for mode in sp.ExtractMode:
                    col.evaluations += 1; col.states += 1; col.transitions += 1; col.nontrivial += 1
                    case = {'indexes': list(idx), 'index_dtype': idt, 'before': before, 'after': after, 'mode': mode.name, 'signal_length': n}
                    try:
                        got = sp.extract_around_indexes(long_data, ind, before, after, mode)
                    except Exception as e:
                        col.violation('C19/extract/raised', '%s indexes %s: %s: %s' % (idt, idx, type(e).__name__, e), case); continue
                    e = exp if mode is sp.ExtractMode.STACK else (exp.reshape(-1) if mode is sp.ExtractMode.CONCATENATE else exp.mean(axis=0))
                    if np.asarray(got).shape != e.shape or not np.allclose(got, e, rtol=1e-12, atol=0):
                        col.violation('C19/extract/index-dtype', 'extract_around_indexes(signal of %d samples, %s indexes %s, before=%d, after=%d, %s) does not return the samples around the indexes' % (n, idt, idx, before, after, mode.name), case)
    col.sample({'function': 'pad/extract_around_indexes', 'example': {'indexes': [2, 5], 'before': 1, 'after': 2}}, limit=1)
