"""C12 - classes are identified by value: order irrelevant, foreign values ignored, automatic class set covers the first batch (E3 over class declarations)."""
PROPERTY = 'C12'
LEVEL = 'model_checking'
ENGINE = 'E3'
RULE = ('bounded-exhaustive over class declarations: EVERY ordered class list (all permutations of all subsets) of length 1..3 (quick) / 1..4 (thorough) over the value universe {0,1,2,3,5,300} (and of length 1..3 over the edge universe {0,65535,65536,131071} on 32-bit words); for each list ALL '
        '6^4 label columns over the universe (declared, undeclared and unused values all occur) x all 4^4 trace columns over {0,1,2,5}, packed, on ANOVA/NICV/SNR/MIA under both accumulation kernels; template '
        'building on every label column over {0,2,5,300}^5 for every ordered list of length 1..3 over that universe; TemplateAttack / TemplateDPAAttack for every ordered list of >=2 classes over {0,2,5,300} with '
        'undeclared values among the building traces and every hypothesis column over the declared values; automatic class sets for first-batch maxima {0,1,7,8,9,10,62,63,64,65,254,255}. '
        'A case = one (class list, distinguisher, trace column, label column); non-trivial = the value-keyed reference says the statistic is defined')
ASSUMPTIONS = ['numpy/numba trusted', 'results are compared with a reference keyed by class VALUE, with the tolerance rule (re-ordering a declaration changes the floating-point summation order by design)',
               'template rows / covariance are compared only for classes with >= 2 building traces', 'N=4 (5 for templates) rows']
TRUSTED = ['mc/refs/stats.py, mc/refs/mia.py, mc/refs/frac.py (value-keyed references)', 'LUT memo (each distinct class list still compiles its own look-up function once)']
TECHNIQUE = 'bounded-exhaustive enumeration of all ordered class declarations over a small value universe crossed with all label/trace columns (column packing) on the real class-based distinguishers, value-keyed reference model'
LEVEL_TEXT = ('Every ordered class declaration of length <=3 (quick) / <=4 (thorough) over {0,1,2,3,5,300} is executed on the real ANOVA, NICV, SNR and MIA distinguishers against every label column over the same '
              'universe (so declared, undeclared and unused values all occur) and every trace column; results must equal a reference keyed by class value, which makes order-independence, ignoring of undeclared '
              'rows and neutrality of unused classes hold or fail entry by entry. Template building/matching is enumerated the same way (templates and static scores permute with the declaration, template-DPA scores '
              'do not move), and automatic class sets are checked on both sides of every size threshold.')
LEVEL_NOTE = 'Trusted: numpy, numba, value-keyed references. Bound: universe of 6 values, N=4/5 rows.'
DESIGN_REF = 'DESIGN.md section 3, C12'

U = [0, 1, 2, 3, 5, 300]
UT = [0, 2, 5, 300]
MAXIMA = [0, 1, 7, 8, 9, 10, 62, 63, 64, 65, 254, 255]
UE = [0, 65535, 65536, 131071]          # the 16-bit edge and the largest value the 2**17-entry class table can hold (32-bit intermediate words)


def bound(tier):
    return {'universe': U, 'max_list_length': 3 if tier == 'quick' else 4, 'template_universe': UT, 'auto_maxima': MAXIMA}


def _lists(universe, maxlen, minlen=1):
    import itertools
    out = []
    for L in range(minlen, maxlen + 1):
        for sub in itertools.permutations(universe, L):
            out.append(list(sub))
    return out


def shards(tier, seed):
    maxlen = 3 if tier == 'quick' else 4
    lists = _lists(U, maxlen)
    k = 16 if tier == 'quick' else 48
    out = [{'name': 'partitioned-%02d' % i, 'kind': 'partitioned', 'part': i, 'parts': k, 'cost': 10} for i in range(k)]
    out += [{'name': 'edge-values-%d' % i, 'kind': 'edge', 'part': i, 'parts': 4, 'cost': 12} for i in range(4)]
    out += [{'name': 'tplbuild-%d' % i, 'kind': 'tplbuild', 'part': i, 'parts': 4, 'cost': 8} for i in range(4)]
    out += [{'name': 'tplmatch-%d' % i, 'kind': 'tplmatch', 'part': i, 'parts': 2, 'cost': 8} for i in range(2)]
    out += [{'name': 'auto-%d' % i, 'kind': 'auto', 'part': i, 'parts': 4, 'cost': 9} for i in range(4)]
    return out


def run_shard(shard, ctx):
    import numpy as np
    from mc.common import Collector, install_lut_memo
    from mc.refs import stats, mia, frac
    col = Collector()
    stats.selftest(); mia.selftest(); frac.selftest()
    install_lut_memo()
    if shard.get('replay_case') is not None:
        c = shard['replay_case']
        {'partitioned': _partitioned_list, 'tplbuild': _tplbuild_list, 'tplmatch': _tplmatch_list, 'auto': _auto_case}[c['kind']](col, ctx, np, c)
        return col.result()
    tier = ctx['tier']
    maxlen = 3 if tier == 'quick' else 4
    if shard['kind'] == 'partitioned':
        for cl in _lists(U, maxlen)[shard['part']::shard['parts']]:
            _partitioned_list(col, ctx, np, {'kind': 'partitioned', 'classes': cl})
        col.guard(col.counters.get('kernel2_used', 0) > 0 and col.counters.get('kernel1_used', 0) > 0, 'vacuity: both kernels must run (%s)' % col.counters)
    elif shard['kind'] == 'edge':
        for cl in _lists(UE, 3)[shard['part']::shard['parts']]:
            _partitioned_list(col, ctx, np, {'kind': 'partitioned', 'classes': cl, 'universe': UE})
        for cl in _lists(UE, 2)[shard['part']::shard['parts']]:
            _tplbuild_list(col, ctx, np, {'kind': 'tplbuild', 'classes': cl, 'universe': UE})
    elif shard['kind'] == 'tplbuild':
        for cl in _lists(UT, 3)[shard['part']::shard['parts']]:
            _tplbuild_list(col, ctx, np, {'kind': 'tplbuild', 'classes': cl})
    elif shard['kind'] == 'tplmatch':
        # gapped universe, plus the contiguous universe {0,1,2} where a class value is also a valid (but wrong) row index
        import itertools as _it
        four = [list(p_) for p_ in _it.permutations([0, 1, 2, 3])]          # incl. [0, 2, 1, 3]: first and last class in place, the middle swapped
        for cl in (_lists(UT, 3 if tier == 'quick' else 4, 2) + _lists([0, 1, 2], 3, 2) + four)[shard['part']::shard['parts']]:
            _tplmatch_list(col, ctx, np, {'kind': 'tplmatch', 'classes': cl})
            if len(cl) >= 3:
                # one declared class receives no building trace at all (its template stays empty): the other classes keep their own rows and scores, whatever the order of the declaration
                for ub in cl:
                    _tplmatch_list(col, ctx, np, {'kind': 'tplmatch', 'classes': cl, 'unbuilt': ub})
    else:
        fams = ('anova', 'nicv', 'snr', 'mia', 'tplbuild', 'tplattack')
        k = 0
        for m in MAXIMA:
            for fam in fams:
                if k % shard['parts'] == shard['part']:
                    _auto_case(col, ctx, np, {'kind': 'auto', 'max': m, 'fam': fam})
                k += 1
    col.guard(col.nontrivial > 0, 'vacuity: nothing defined was compared')
    return col.result()


def _report(col, np, fp, label, case, got, ref, defined, tol, floor, X, Y, extra=''):
    from mc.common import compare
    got = np.asarray(got, dtype='float64')
    if got.shape != ref.shape:
        col.violation(fp + '/shape', '%s: shape %s expected %s' % (label, got.shape, ref.shape), case); return
    c = compare(got, ref, defined, tol, floor)
    col.evaluations += defined.size; col.states += defined.size; col.nontrivial += int(defined.sum())
    for kind in ('undefined_bad', 'defined_bad', 'value_bad'):
        k = int(c[kind].sum())
        if k:
            w, s = (int(t) for t in np.argwhere(c[kind])[0])
            y = Y[:, w].tolist(); cls = case['classes'] if 'classes' in case else None
            und = [v for v in y if cls is not None and v not in cls]
            sub = 'undeclared-rows-have-effect' if und else ('order-or-unused-classes' if cls is not None and (cls != sorted(cls) or any(v not in y for v in cls)) else kind)
            col.violations_n('%s/%s' % (fp, sub), k, '%s %s: traces=%s class values of the traces=%s declared=%s got=%r value-keyed reference=%r (%d entries)%s'
                             % (label, kind, X[:, s].tolist(), y, cls, float(got[w, s]), float(ref[w, s]), k, extra),
                             dict(case, x=X[:, s].tolist(), y=y, got=float(got[w, s]), ref=None if not defined[w, s] else float(ref[w, s])))
    col.err(fp, c['max_err'])


def _partitioned_list(col, ctx, np, case):
    import scared
    from scared.distinguishers import partitioned as P
    from mc.common import all_columns, TOL
    from mc.refs import stats, mia as R
    from mc import env
    cl = case['classes']
    clock = env.install_clock(P)
    rec = env.install_recorder(P.PartitionedDistinguisherMixin)
    uni = case.get('universe') or U
    ydt = 'uint16' if max(uni) < 65536 else 'uint32'
    X = all_columns([0, 1, 2, 5], 4); Y = all_columns(uni, 4)
    D = {'anova': scared.ANOVADistinguisher, 'nicv': scared.NICVDistinguisher, 'snr': scared.SNRDistinguisher}
    for which in ('anova', 'nicv', 'snr'):
        ref, defined = stats.partitioned_ref_matrix(X, Y, cl, which)
        nz = np.abs(ref[defined]); floor = 1.0 if which == 'nicv' else (float(nz[nz > 0].min()) if (nz > 0).any() else 1.0)
        for prec, seq in (('float32', (1, 2)), ('float64', (1, 1))):
            d = D[which](partitions=cl, precision=prec)
            try:
                env.forced_updates(d, [(X[:2].astype('uint8'), Y[:2].astype(ydt)), (X[2:].astype('uint8'), Y[2:].astype(ydt))], seq, clock, rec)
                got = d.compute()
            except env.LostControl:
                raise
            except Exception as e:
                col.violation('C12/%s/raised' % which, '%s declared=%s: %s %s' % (which, cl, type(e).__name__, e), case); continue
            col.transitions += 3
            for k in seq: col.count('kernel%d_used' % k)
            _report(col, np, 'C12/%s' % which, which, case, got, ref, defined, TOL[prec], floor, X, Y)
    # MIA
    edges = [0, 2, 4, 6]
    ref, defined, tot = R.mi_matrix(X, Y, edges, cl)
    for dt in (ydt, 'int32'):
        d = scared.MIADistinguisher(bin_edges=edges, partitions=cl)
        try:
            d.update(X[:3].astype('uint8'), Y[:3].astype(dt)); d.update(X[3:].astype('uint8'), Y[3:].astype(dt))
            got = d.compute()
        except Exception as e:
            col.violation('C12/mia/raised', 'mia declared=%s: %s %s' % (cl, type(e).__name__, e), case); continue
        col.transitions += 3
        _report(col, np, 'C12/mia', 'mia', case, got, ref, defined, 1e-9, 1.0, X, Y)
    col.sample({'declared_classes': cl, 'label_column': Y[:, 517 % Y.shape[1]].tolist(), 'trace_column': X[:, 77].tolist()}, limit=2)
    col.outcomes.add(tuple(cl))


def _tplbuild_list(col, ctx, np, case):
    from checks.dsys import tplbuild_class
    from mc.common import all_columns, rng_for
    from mc.refs import frac
    cl = case['classes']
    N = 5
    rng = rng_for(ctx['seed'], 'c12-tplbuild')
    X = rng.randint(0, 12, (N, 2)).astype('float64')
    uni = case.get('universe') or UT
    ydt = 'uint16' if max(uni) < 65536 else 'uint32'
    Ycols = all_columns(uni, N)
    T = tplbuild_class()
    for j in range(Ycols.shape[1]):
        y = Ycols[:, j]
        cnt = [int((y == c).sum()) for c in cl]
        d = T(partitions=cl, precision='float64')
        try:
            d.update(X[:2], y[:2].reshape(-1, 1).astype(ydt)); d.update(X[2:], y[2:].reshape(-1, 1).astype(ydt))
            tpl = d.compute()
        except Exception as e:
            col.violation('C12/tplbuild/raised', 'declared=%s labels=%s: %s %s' % (cl, y.tolist(), type(e).__name__, e), dict(case, y=y.tolist())); continue
        col.transitions += 3; col.evaluations += 1; col.states += 1
        refT, refP, ok = frac.templates(X, y, cl)
        bad = False
        for i, c in enumerate(cl):
            if cnt[i] >= 2:
                col.nontrivial += 1
                if not np.allclose(tpl[i], refT[i], rtol=1e-10, atol=1e-10):
                    und = [v for v in y.tolist() if v not in cl]
                    col.violation('C12/tplbuild/template-row' + ('/undeclared-rows-have-effect' if und else ''), 'declared=%s labels=%s: template row %d (class value %d) is %s, mean of the traces carrying that value is %s'
                                  % (cl, y.tolist(), i, c, tpl[i].tolist(), refT[i].tolist()), dict(case, y=y.tolist())); bad = True; break
        if ok and not bad and not np.allclose(d.pooled_covariance, refP, rtol=1e-9, atol=1e-9):
            col.violation('C12/tplbuild/pooled-covariance', 'declared=%s labels=%s: pooled covariance %s, value-keyed reference %s' % (cl, y.tolist(), d.pooled_covariance.tolist(), refP.tolist()), dict(case, y=y.tolist()))
        if d.processed_traces != N:
            col.violation('C12/tplbuild/counter', 'declared=%s: processed_traces=%d' % (cl, d.processed_traces), dict(case, y=y.tolist()))
    col.sample({'template_build_declared_classes': cl, 'label_columns': int(Ycols.shape[1])}, limit=1)


def _tplmatch_list(col, ctx, np, case):
    import itertools
    import scared
    from checks import asys
    from mc.common import rng_for
    from mc.refs import frac
    cl = case['classes']
    rng = rng_for(ctx['seed'], 'c12-tplmatch')
    # building set: 3 traces for each value of the universe (so undeclared values are present among the building traces)
    uni = UT if any(v in (5, 300) for v in cl) else [0, 1, 2, 3, 7]
    vb = np.repeat(np.array(uni), 3)
    Xb = (rng.randint(0, 10, (len(vb), 2)) + 3 * np.array([uni.index(v) for v in vb])[:, None]).astype('float64')
    perm = rng.permutation(len(vb)); vb = vb[perm]; Xb = Xb[perm]
    if case.get('unbuilt') is not None:
        keep = vb != case['unbuilt']; vb = vb[keep]; Xb = Xb[keep]
    Xm = rng.randint(0, 14, (3, 2)).astype('float64')
    refT, refP, ok = frac.templates(Xb, vb, cl)
    if not ok or np.linalg.cond(refP) > 1e3:
        col.count('tplmatch_ill_conditioned_skipped'); return

    @scared.reverse_selection_function
    def rsf(v):
        return v
    G = len(cl)
    hyp_cols = list(itertools.product(cl, repeat=3))                      # every hypothesis column over the declared values (3 matched traces)
    H = np.array(hyp_cols, dtype='uint16').T                               # (3, G^3): one "guess" per column

    @scared.attack_selection_function(guesses=np.arange(min(H.shape[1], 255), dtype='uint8'), words=0)
    def asf(h, guesses):
        return h[:, :len(guesses), None]
    H = H[:, :255]
    with asys.BatchSize(4):
        bcont = scared.Container(scared.traces.read_ths_from_ram(Xb, v=vb.reshape(-1, 1).astype('uint16')))
        mcont = scared.Container(scared.traces.read_ths_from_ram(Xm, h=H, v=np.zeros((3, 1), 'uint16')))
        try:
            a = scared.TemplateAttack(container_building=bcont, reverse_selection_function=rsf, model=scared.Value(), precision='float64', partitions=cl)
            a.build(); a.run(mcont)
            dpa = scared.TemplateDPAAttack(container_building=bcont, reverse_selection_function=rsf, selection_function=asf, model=scared.Value(), precision='float64', partitions=cl)
            dpa.build(); dpa.run(mcont)
        except Exception as e:
            col.violation('C12/tplmatch/raised', 'declared=%s: %s %s' % (cl, type(e).__name__, e), case); return
    col.transitions += 4
    exp_static = frac.template_scores(Xm, refT, refP, [[i] * 3 for i in range(G)])
    col.evaluations += G + H.shape[1]; col.states += G + H.shape[1]; col.nontrivial += G + H.shape[1]
    if not np.allclose(a.templates, refT, rtol=1e-9, atol=1e-9):
        col.violation('C12/tplattack/templates', 'declared=%s: templates rows are not the class means in declaration order (undeclared building values %s must be ignored)' % (cl, [v for v in uni if v not in cl]), case)
    if not np.allclose(np.asarray(a.scores).reshape(-1), exp_static, rtol=1e-7, atol=1e-7):
        col.violation('C12/tplattack/static-scores', 'declared=%s: static template scores %s, value-keyed reference (in declaration order) %s' % (cl, np.asarray(a.scores).reshape(-1).tolist(), exp_static.tolist()), case)
    picks = [[cl.index(int(v)) for v in H[:, g]] for g in range(H.shape[1])]
    exp_dpa = frac.template_scores(Xm, refT, refP, picks)
    got = np.asarray(dpa.scores).reshape(-1)
    if got.shape != exp_dpa.shape or not np.allclose(got, exp_dpa, rtol=1e-7, atol=1e-7):
        g = int(np.argmax(np.abs(got - exp_dpa))) if got.shape == exp_dpa.shape else 0
        col.violation('C12/tpldpa/scores', 'declared=%s: template-DPA score of hypothesis column %s is %r, reference (template of the hypothesis VALUE) %r' % (cl, H[:, g].tolist(), float(got[g]) if got.size > g else None, float(exp_dpa[g])), case)
    col.sample({'template_attack_declared_classes': cl, 'hypothesis_columns': int(H.shape[1])}, limit=1)


def _auto_case(col, ctx, np, case):
    """Automatic class set: the first batch contains the values {0, m//2, m} (m = its maximum); every trace must be counted in the class of its value."""
    import scared
    from checks.dsys import tplbuild_class
    from checks import asys
    from mc.common import all_columns, TOL
    from mc.refs import stats, mia as R, frac
    m = case['max']; fam = case['fam']
    vals = sorted({0, m // 2, m})
    X = all_columns([0, 1, 2, 5], 4)
    Y = all_columns(vals, 4)
    Y = Y[:, (Y.max(axis=0) == m)]                       # every column's first batch (= the whole batch) has maximum m
    label = 'automatic classes, first-batch maximum %d' % m
    c2 = dict(case, classes=None)
    if fam in ('anova', 'nicv', 'snr'):
        D = {'anova': scared.ANOVADistinguisher, 'nicv': scared.NICVDistinguisher, 'snr': scared.SNRDistinguisher}[fam]
        ref, defined = stats.partitioned_ref_matrix(X, Y, vals, fam)
        nz = np.abs(ref[defined]); floor = 1.0 if fam == 'nicv' else (float(nz[nz > 0].min()) if (nz > 0).any() else 1.0)
        d = D(precision='float64')
        try:
            d.update(X.astype('uint8'), Y.astype('uint8')); got = d.compute()
        except Exception as e:
            col.violation('C12/auto/%s/raised' % fam, '%s: %s %s' % (label, type(e).__name__, e), case); return
        col.transitions += 2
        if not all(v in list(d.partitions) for v in vals):
            col.violation('C12/auto/class-set-misses-a-present-value', '%s: class set %s..%s (%d classes) does not contain every value present %s' % (label, d.partitions[0] if len(d.partitions) else None, d.partitions[-1] if len(d.partitions) else None, len(d.partitions), vals), case)
        _report(col, np, 'C12/auto/%s' % fam, label + ' ' + fam, c2, got, ref, defined, TOL['float64'], floor, X, Y)
    elif fam == 'mia':
        edges = [0, 2, 4, 6]
        ref, defined, tot = R.mi_matrix(X, Y, edges, vals)
        d = scared.MIADistinguisher(bin_edges=edges)
        try:
            d.update(X.astype('uint8'), Y.astype('uint8')); got = d.compute()
        except Exception as e:
            col.violation('C12/auto/mia/raised', '%s: %s %s' % (label, type(e).__name__, e), case); return
        col.transitions += 2
        _report(col, np, 'C12/auto/mia', label + ' mia', c2, got, ref, defined, 1e-9, 1.0, X, Y)
    else:
        # template building with automatic classes: 2 traces per present value
        v = np.repeat(np.array(vals), 2)
        Xb = (np.arange(len(v) * 2).reshape(len(v), 2) * 3 % 11 + np.repeat(np.arange(len(vals)), 2)[:, None] * 4).astype('float64')
        if fam == 'tplbuild':
            d = tplbuild_class()(precision='float64')
            try:
                d.update(Xb, v.reshape(-1, 1).astype('uint8')); tpl = d.compute()
            except Exception as e:
                col.violation('C12/auto/tplbuild/raised', '%s: %s %s' % (label, type(e).__name__, e), case); return
            parts = list(d.partitions)
        else:
            @scared.reverse_selection_function
            def rsf(v):
                return v
            with asys.BatchSize(100):
                a = scared.TemplateAttack(container_building=scared.Container(scared.traces.read_ths_from_ram(Xb, v=v.reshape(-1, 1).astype('uint8'))), reverse_selection_function=rsf, model=scared.Value(), precision='float64')
                try:
                    a.build()
                except Exception as e:
                    col.violation('C12/auto/tplattack/raised', '%s: %s %s' % (label, type(e).__name__, e), case); return
            tpl = a.templates; parts = list(a.partitions)
        col.transitions += 2; col.evaluations += len(vals); col.states += len(vals); col.nontrivial += len(vals)
        for val in vals:
            if val not in parts:
                col.violation('C12/auto/class-set-misses-a-present-value', '%s (%s): class set of %d classes does not contain the present value %d' % (label, fam, len(parts), val), case); continue
            exp = Xb[v == val].mean(axis=0)
            if not np.allclose(tpl[parts.index(val)], exp):
                col.violation('C12/auto/%s/template-row' % fam, '%s: template of class value %d is %s, mean of its traces is %s' % (label, val, tpl[parts.index(val)].tolist(), exp.tolist()), case)
    col.sample({'automatic_class_set_first_batch_values': vals, 'distinguisher': fam}, limit=1)
