"""C05 - AES encrypt/decrypt and every stop point conform to FIPS-197 (E3: the cipher as a transition system).

The reference (mc/refs/aes.py, GF(2^8) arithmetic computed) produces the state after every (round, step) slot; scared is
stopped at every slot of every key size / direction / broadcasting shape / dtype on pools in which every byte value
occurs at every state position, and must return exactly the reference state.  Primitives are run on their complete
per-byte domains (mix_column: all columns with <= 2 active bytes, thorough: all 2^32 columns).
"""
PROPERTY = 'C05'
LEVEL = 'model_checking'
ENGINE = 'E3'
RULE = ('structure-complete enumeration: {AES-128,192,256} x {encrypt,decrypt} x every at_round in [0,Nr] x every after_step in 0..3 (+ default) x four broadcasting '
        'shapes x block/key dtypes, each on pools where every byte value occurs at every position, swept in two orders; primitives on complete per-byte domains; '
        'a case = one (configuration, stop point, block, key) state; non-trivial = the reference state differs from the input block (some operation acted)')
ASSUMPTIONS = ['numpy is trusted', 'value space: per-table-entry/per-position complete, not the 2^128 x 2^256 product (DESIGN.md section 4)']
TRUSTED = ['mc/refs/aes.py (FIPS-197 transcription; self-tested on FIPS App. A/C vectors and against pycryptodome at start-up)']
TECHNIQUE = 'exhaustive enumeration of all stop points/shapes/dtypes of the real cipher against a FIPS-197 state-trace reference model; complete per-byte domains for primitives'
LEVEL_TEXT = ('All 2*(4*(Nr+1)+1) stop points for each key size, four broadcasting shapes and seven integer dtypes are executed on the real scared.aes and compared with the '
              'FIPS-197 reference state at exactly that slot, on >=256-block pools covering every byte value at every position; sub_bytes/shift_rows/add_round_key on complete '
              'per-position domains, mix_column on all <=2-active-byte columns (quick) / all 2^32 columns (thorough); caller arrays and module tables must stay unchanged; '
              'two sweep orders must agree; every call sequence of depth <=4 (quick) / 5 (thorough) over {encrypt, decrypt, stop-point calls, in-place rewrite of the key array / one key byte / the block array} '
              'on the same array objects returns the state for the current contents (the cipher has no memory).')
LEVEL_NOTE = 'Trusted: numpy, reference model (validated against FIPS vectors and pycryptodome). Not covered: the full key x block product space.'
DESIGN_REF = 'DESIGN.md section 3, C05'

NKS = (16, 24, 32)
SHAPES = ('1b1k', 'Nb1k', '1bKk', 'NbNk')


def bound(tier):
    return {'stop_points': 'all', 'mix_column': '<=2 active bytes' if tier == 'quick' else 'all 2^32 columns', 'blocks_per_pool': 256 + 20}


def shards(tier, seed):
    out = []
    for nk in NKS:
        for mode in ('enc', 'dec'):
            for shp in SHAPES:
                out.append({'name': 'sweep-%d-%s-%s' % (nk, mode, shp), 'kind': 'sweep', 'nk': nk, 'mode': mode, 'shape': shp, 'cost': 30})
    out.append({'name': 'prim-sub-shift-ark', 'kind': 'prim', 'cost': 10})
    out.append({'name': 'prim-mixcol-2active', 'kind': 'mix2', 'cost': 40})
    out.append({'name': 'prim-errors', 'kind': 'errors', 'cost': 1})
    out.append({'name': 'layouts', 'kind': 'layouts', 'cost': 8})
    for nk in NKS:
        out.append({'name': 'histories-%d' % nk, 'kind': 'histories', 'nk': nk, 'cost': 12})
    if tier == 'thorough':
        for c in range(64):
            out.append({'name': 'mixcol-full-%02d' % c, 'kind': 'mixfull', 'chunk': c, 'chunks': 64, 'cost': 100})
    return out


def _tables_digest(aes):
    from mc.common import digest
    names = [n for n in dir(aes) if n.isupper() and hasattr(getattr(aes, n), 'dtype')]
    d = digest(*[getattr(aes, n) for n in sorted(names)])
    ops = tuple(tuple(f.__name__ for f in getattr(aes, n)) for n in ('_ENC_FIRST_ROUND', '_ENC_ROUND', '_ENC_LAST_ROUND', '_DEC_FIRST_ROUND', '_DEC_ROUND', '_DEC_LAST_ROUND'))
    return d, ops


def _pool(seed, nk):
    import numpy as np
    from mc.common import rng_for
    rng = rng_for(seed, 'c05', nk)
    i = np.arange(256)[:, None]; w = np.arange(16)[None, :]
    blocks = ((i * (2 * w + 1) + w) % 256).astype(np.uint8)
    fips = np.frombuffer(bytes.fromhex('00112233445566778899aabbccddeeff'), dtype=np.uint8)
    extra = np.vstack([fips, np.zeros(16, np.uint8), np.full(16, 255, np.uint8), rng.randint(0, 256, (17, 16)).astype(np.uint8)])
    blocks = np.vstack([blocks, extra])
    kf = np.arange(nk, dtype=np.uint8)
    keys = np.vstack([kf, np.zeros(nk, np.uint8), np.full(nk, 255, np.uint8), rng.randint(0, 256, (13, nk)).astype(np.uint8)])
    return blocks, keys


def run_shard(shard, ctx):
    import numpy as np
    from scared.aes import base as aes
    from mc.common import Collector
    from mc.refs import aes as R
    R.selftest()
    col = Collector()
    tier, seed = ctx['tier'], ctx['seed']
    tab0 = _tables_digest(aes)
    kind = shard['kind']
    if kind == 'sweep':
        _sweep(shard, seed, tier, col, aes, R, np)
    elif kind == 'prim':
        _prims(seed, col, aes, R, np)
    elif kind == 'mix2':
        _mix2(col, aes, R, np)
    elif kind == 'mixfull':
        _mixfull(shard, col, aes, R, np)
    elif kind == 'errors':
        _errors(col, aes, np)
    elif kind == 'layouts':
        _layouts(seed, col, aes, R, np)
    elif kind == 'histories':
        _histories(shard, seed, tier, col, aes, R, np)
    if _tables_digest(aes) != tab0:
        col.violation('C05/module-tables-modified', 'module-level tables or round-operation lists changed during the sweep %s' % shard['name'], {'shard': shard['name']})
    return col.result()


def _call(aes, mode, blocks, keys, at_round, after_step):
    f = aes.encrypt if mode == 'enc' else aes.decrypt
    if at_round is None:
        return f(blocks, keys)
    return f(blocks, keys, at_round=at_round, after_step=after_step)


def _sweep(shard, seed, tier, col, aes, R, np):
    nk, mode, shp = shard['nk'], shard['mode'], shard['shape']
    nr = nk // 4 + 6
    blocks, keys = _pool(seed, nk)
    configs = []    # (label, blocks array, keys array, ref trace dict, dtype_b, dtype_k)
    if mode == 'dec':
        pass
    def ref_for(b, k):
        rk = R.round_keys_v(np.atleast_2d(k))
        b2 = np.atleast_2d(b)
        return R.enc_trace_v(b2, rk) if mode == 'enc' else R.dec_trace_v(b2, rk)
    dts = ['uint8', 'int16', 'uint16', 'int32', 'int64', 'uint64']
    if shp == '1b1k':
        for bi in (256, 0, 7, 259, 263):
            for ki in (0, 3):
                configs.append(('b%d-k%d' % (bi, ki), blocks[bi], keys[ki], 'uint8', 'uint8'))
        configs.append(('b256-k0-int32', blocks[256], keys[0], 'int32', 'int16'))
    elif shp == 'Nb1k':
        for ki in (0, 4):
            configs.append(('pool-k%d' % ki, blocks, keys[ki], 'uint8', 'uint8'))
        for dt in dts[1:]:
            configs.append(('sub-k5-%s' % dt, blocks[::16], keys[5], dt, dt))
        b7 = blocks[blocks.max(axis=1) <= 127]
        if len(b7): configs.append(('int8', b7, (keys[6] & 0x7f), 'int8', 'int8'))
        configs.append(('N1', blocks[5:6], keys[7], 'uint8', 'uint8'))
    elif shp == '1bKk':
        configs.append(('b256-allkeys', blocks[256], keys, 'uint8', 'uint8'))
        configs.append(('b9-as-many-keys-as-round-keys', blocks[9], keys[:nr + 1], 'uint8', 'uint8'))          # key counts that coincide with another axis length (round keys, state bytes)
        configs.append(('b9-4keys', blocks[9], keys[:4], 'uint8', 'uint8'))
        configs.append(('b9-allkeys-u16', blocks[9], keys, 'uint16', 'int32'))
        kk = np.tile(keys[8], (256, 1)); kk[:, nk - 1] = np.arange(256)      # last key byte through all values
        configs.append(('b3-lastbyte-keys', blocks[3], kk, 'uint8', 'uint8'))
    else:
        n = 64
        kk = np.vstack([keys] * 4)[:n]
        kk = kk.copy(); kk[:, 0] = np.arange(n) * 4 + 1
        configs.append(('paired', blocks[:n], kk, 'uint8', 'uint8'))
        configs.append(('paired-as-many-as-round-keys', blocks[:nr + 1], kk[:nr + 1], 'uint8', 'uint8'))
        configs.append(('paired-16', blocks[:16], kk[:16], 'uint8', 'uint8'))
        configs.append(('paired-nk', blocks[:nk], kk[:nk], 'uint8', 'uint8'))
        configs.append(('paired-i64', blocks[100:100 + n], kk, 'int64', 'uint8'))
    slots = [(r, s) for r in range(nr + 1) for s in range(4)] + [None]
    for label, b, k, dtb, dtk in configs:
        ref = ref_for(b, k)
        bb = np.array(b, dtype=dtb); kk_ = np.array(k, dtype=dtk)
        bb0, kk0 = bb.copy(), kk_.copy()
        expected_n = max(np.atleast_2d(b).shape[0], np.atleast_2d(k).shape[0])
        for order in (slots, slots[::-1]):
            for slot in order:
                r, s = slot if slot is not None else (None, None)
                case = {'nk': nk, 'mode': mode, 'shape': shp, 'config': label, 'at_round': r, 'after_step': s, 'block_dtype': dtb, 'key_dtype': dtk}
                try:
                    got = _call(aes, mode, bb, kk_, r, s)
                except Exception as e:
                    col.violation('C05/%s/raised' % mode, '%s at %s: %s' % (type(e).__name__, slot, e), case); continue
                col.transitions += 1
                exp = ref[slot if slot is not None else (nr, 3)]
                exp = exp[0] if expected_n == 1 else exp
                if got.shape != exp.shape:
                    col.violation('C05/%s/shape/%s' % (mode, shp), 'result shape %s expected %s' % (got.shape, exp.shape), case); continue
                ncase = expected_n
                col.evaluations += ncase; col.states += ncase
                inp = np.broadcast_to(np.atleast_2d(b), (expected_n, 16))
                col.nontrivial += int((np.atleast_2d(exp) != inp).any(axis=1).sum())
                if not np.array_equal(got, exp):
                    bad = np.atleast_2d(got != exp).any(axis=1)
                    i = int(np.argmax(bad))
                    stage = 'final' if slot is None or slot == (nr, 3) else 'stop-point'
                    col.violations_n('C05/%s/%s/aes%d' % (mode, stage, nk * 8), int(bad.sum()),
                                     'state mismatch at round %s step %s: block=%s key=%s got=%s expected=%s' % (r, s, np.atleast_2d(b)[i % np.atleast_2d(b).shape[0]].tolist(),
                                                                                                            np.atleast_2d(k)[i % np.atleast_2d(k).shape[0]].tolist(),
                                                                                                            np.atleast_2d(got)[i].tolist(), np.atleast_2d(exp)[i].tolist()),
                                     dict(case, block=np.atleast_2d(b)[i % np.atleast_2d(b).shape[0]].tolist(), key=np.atleast_2d(k)[i % np.atleast_2d(k).shape[0]].tolist()))
                if not (np.array_equal(bb, bb0) and np.array_equal(kk_, kk0)):
                    col.violation('C05/%s/caller-array-modified' % mode, 'input arrays modified by the call at %s' % (slot,), case)
                    bb, kk_ = bb0.copy(), kk0.copy()
        col.sample({'nk': nk, 'mode': mode, 'shape': shp, 'config': label, 'slots': len(slots), 'block': np.atleast_2d(b)[0].tolist(),
                    'state_at_(1,2)': np.atleast_2d(ref[(1, 2)])[0].tolist()}, limit=1)
    # inversion through the public API on the whole pool
    if shp == 'Nb1k':
        for ki in range(len(keys)):
            c = aes.encrypt(blocks, keys[ki]); p = aes.decrypt(c, keys[ki])
            col.transitions += 2; col.evaluations += len(blocks); col.states += len(blocks); col.nontrivial += len(blocks)
            if not np.array_equal(p, blocks):
                col.violation('C05/inversion/aes%d' % (nk * 8), 'decrypt(encrypt(x)) != x for key %s' % keys[ki].tolist(), {'nk': nk, 'key': keys[ki].tolist()})


def _prims(seed, col, aes, R, np):
    i = np.arange(256)[:, None]; p = np.arange(16)[None, :]
    st = ((i + 17 * p) % 256).astype(np.uint8)                 # every value at every position
    sb = np.array(R.SBOX, dtype=np.uint8); isb = np.array(R.INV_SBOX, dtype=np.uint8)
    sr = np.array(R.shift_rows(list(range(16)))); isr = np.array(R.inv_shift_rows(list(range(16))))
    for dt in ('uint8', 'int16', 'uint16', 'int32', 'int64', 'uint64', 'int8'):
        base = st if dt != 'int8' else (st & 0x7f)                # a legal byte array in int8 holds 0..127; the images are bytes up to 255 all the same
        s = base.astype(dt); s0 = s.copy()
        for name, f, exp in (('sub_bytes', aes.sub_bytes, sb[base]), ('inv_sub_bytes', aes.inv_sub_bytes, isb[base]),
                             ('shift_rows', aes.shift_rows, base[:, sr]), ('inv_shift_rows', aes.inv_shift_rows, base[:, isr]),
                             ('mix_columns', aes.mix_columns, R.mix_columns_v(base)), ('inv_mix_columns', aes.inv_mix_columns, R.inv_mix_columns_v(base))):
            for view in ('2d', '1d', '3d'):
                a = s if view == '2d' else (s[37] if view == '1d' else s.reshape(16, 16, 16))
                e = exp if view == '2d' else (exp[37] if view == '1d' else exp.reshape(16, 16, 16))
                got = f(a)
                col.transitions += 1; n = a.size // 16
                col.evaluations += n; col.states += n; col.nontrivial += n
                if got.shape != e.shape or not np.array_equal(got, e):
                    bad = (np.asarray(got).reshape(-1, 16) != e.reshape(-1, 16)).any(axis=1) if got.shape == e.shape else np.ones(1, bool)
                    j = int(np.argmax(bad))
                    col.violations_n('C05/prim/%s' % name, int(bad.sum()), '%s(%s) mismatch (dtype %s, %s view)' % (name, a.reshape(-1, 16)[j].tolist(), dt, view),
                                     {'primitive': name, 'state': a.reshape(-1, 16)[j].tolist(), 'dtype': dt})
                if not np.array_equal(s, s0):
                    col.violation('C05/prim/caller-array-modified', '%s modified its argument' % name, {'primitive': name}); s = s0.copy()
    # add_round_key: all byte pairs at every position + the four documented shape modes
    a = np.repeat(np.arange(256), 256); b = np.tile(np.arange(256), 256)
    S = ((a[:, None] + p) % 256).astype(np.uint8); K = ((b[:, None] + 3 * p) % 256).astype(np.uint8)
    got = aes.add_round_key(S, K); col.transitions += 1; col.evaluations += len(S); col.states += len(S); col.nontrivial += len(S)
    if not np.array_equal(got, S ^ K):
        col.violation('C05/prim/add_round_key', 'pairwise xor mismatch', {})
    for sa, ka, exp in ((S[5], K[9], S[5] ^ K[9]), (S[5], K[:40], S[5][None] ^ K[:40]), (S[:40], K[9], S[:40] ^ K[9][None]), (S[:40], K[100:140], S[:40] ^ K[100:140])):
        got = aes.add_round_key(sa, ka); col.transitions += 1; col.evaluations += 1; col.states += 1; col.nontrivial += 1
        if got.shape != exp.shape or not np.array_equal(got, exp):
            col.violation('C05/prim/add_round_key-shapes', 'shape mode %s/%s mismatch' % (sa.shape, ka.shape), {})
    # mix_columns: a column's image does not depend on its position nor on the other columns
    rng = np.random.RandomState(seed + 11)
    cols4 = rng.randint(0, 256, (512, 4)).astype(np.uint8)
    for pos in range(4):
        stt = rng.randint(0, 256, (512, 16)).astype(np.uint8); stt[:, 4 * pos:4 * pos + 4] = cols4
        for name, f, rf in (('mix_columns', aes.mix_columns, R.mix_column_v), ('inv_mix_columns', aes.inv_mix_columns, R.inv_mix_column_v)):
            got = f(stt)[:, 4 * pos:4 * pos + 4]; col.transitions += 1; col.evaluations += 512; col.states += 512; col.nontrivial += 512
            if not np.array_equal(got, rf(cols4)):
                col.violation('C05/prim/%s-placement' % name, 'column image depends on placement %d' % pos, {'pos': pos})
    col.sample({'primitive': 'sub_bytes', 'states': 256, 'rule': 'byte p of state i = (i+17p) mod 256'}, limit=1)


def _two_active(np):
    chunks = []
    v = np.arange(256, dtype=np.uint8)
    z = np.zeros((1, 4), np.uint8); chunks.append(z)
    for a in range(4):
        c = np.zeros((256, 4), np.uint8); c[:, a] = v; chunks.append(c)
    for a in range(4):
        for b in range(a + 1, 4):
            c = np.zeros((65536, 4), np.uint8); c[:, a] = np.repeat(v, 256); c[:, b] = np.tile(v, 256); chunks.append(c)
    return np.vstack(chunks)


def _mix2(col, aes, R, np):
    cols = _two_active(np)
    for name, f, rf in (('mix_column', aes.mix_column, R.mix_column_v), ('inv_mix_column', aes.inv_mix_column, R.inv_mix_column_v)):
        got = f(cols); exp = rf(cols); col.transitions += 1
        col.evaluations += len(cols); col.states += len(cols); col.nontrivial += int((cols != 0).any(axis=1).sum())
        bad = (got != exp).any(axis=1)
        if bad.any():
            j = int(np.argmax(bad))
            col.violations_n('C05/prim/%s' % name, int(bad.sum()), '%s(%s) = %s, FIPS gives %s' % (name, cols[j].tolist(), got[j].tolist(), exp[j].tolist()), {'column': cols[j].tolist()})
        rt = (aes.inv_mix_column(aes.mix_column(cols)) if name == 'mix_column' else aes.mix_column(aes.inv_mix_column(cols)))
        if not np.array_equal(rt, cols):
            col.violation('C05/prim/mix-inversion', 'inv_mix_column and mix_column are not mutually inverse on the <=2-active-byte domain', {})
    col.sample({'primitive': 'mix_column', 'columns': int(len(cols)), 'example': cols[70000].tolist()}, limit=1)


def _mixfull(shard, col, aes, R, np):
    c, chunks = shard['chunk'], shard['chunks']
    per = (1 << 32) // chunks
    step = 1 << 22
    for lo in range(c * per, (c + 1) * per, step):
        v = np.arange(lo, lo + step, dtype=np.uint32)
        cols = v.view(np.uint8).reshape(-1, 4)
        for name, f, rf in (('mix_column', aes.mix_column, R.mix_column_v), ('inv_mix_column', aes.inv_mix_column, R.inv_mix_column_v)):
            got = f(cols); exp = rf(cols); col.transitions += 1
            col.evaluations += step; col.states += step; col.nontrivial += step - (1 if lo == 0 else 0)
            if not np.array_equal(got, exp):
                bad = (got != exp).any(axis=1); j = int(np.argmax(bad))
                col.violations_n('C05/prim/%s' % name, int(bad.sum()), '%s(%s) = %s, FIPS gives %s' % (name, cols[j].tolist(), got[j].tolist(), exp[j].tolist()), {'column': cols[j].tolist()})
    col.sample({'primitive': 'mix_column/inv_mix_column', 'chunk': c, 'columns': per}, limit=1)


def _errors(col, aes, np):
    """Values outside the byte range / wrong lengths must be refused, not silently wrapped (the property's domain is
    'any integer dtype holding byte values'; this guards the guard)."""
    k = np.arange(16, dtype=np.uint8)
    for bad in (np.arange(16, dtype=np.int16) + 250, np.arange(16, dtype=np.int16) - 3, np.arange(15, dtype=np.uint8)):
        col.evaluations += 1; col.states += 1; col.transitions += 1; col.nontrivial += 1
        try:
            aes.encrypt(bad, k)
            col.violation('C05/out-of-domain-accepted', 'encrypt accepted a non-byte state %s' % bad.tolist(), {'state': bad.tolist()})
        except (ValueError, TypeError):
            pass


def _histories(shard, seed, tier, col, aes, R, np):
    """The cipher has no memory: every call sequence (depth <= D) over calls on the SAME block/key array objects and in-place rewrites of those
    arrays between calls; every call must return the FIPS-197 state for the CURRENT content of the arrays (E1-style, all sequences, chained without reset so
    that each sequence also starts from a non-initial library state)."""
    import itertools
    nk = shard['nk']; nr = nk // 4 + 6
    blocks, keys = _pool(seed, nk)
    depth = 4 if tier == 'quick' else 5
    cache = {}

    def ref(b, k, mode):
        key = (b.tobytes(), k.tobytes(), mode, b.shape, k.shape)
        if key not in cache:
            rk = R.round_keys_v(np.atleast_2d(k)); b2 = np.atleast_2d(b)
            cache[key] = R.enc_trace_v(b2, rk) if mode == 'enc' else R.dec_trace_v(b2, rk)
        return cache[key]
    calls = {'E': ('enc', None, None), 'D': ('dec', None, None), 'Es': ('enc', 1, 2), 'Ds': ('dec', nr - 1, 1)}
    muts = ('Kall', 'Kbyte', 'Ball')
    menu = list(calls) + list(muts)
    for shape in ('1b1k', 'NbNk', '1bKk'):
        for seq in itertools.product(menu, repeat=depth):
            if seq[-1] in muts or not any(e in muts for e in seq): continue            # ends with a call, contains a rewrite
            if any(a in muts and b_ in muts and a == b_ for a, b_ in zip(seq, seq[1:])): continue
            B = blocks[256].copy() if shape != 'NbNk' else blocks[256:259].copy()
            K = keys[0].copy() if shape == '1b1k' else keys[0:3].copy()
            step = 0; held = []
            for pos, ev in enumerate(seq):
                if ev == 'Kall':
                    step += 1; K[...] = keys[(step * 3) % len(keys)] if K.ndim == 1 else keys[[(step * 3 + j) % len(keys) for j in range(K.shape[0])]]
                elif ev == 'Kbyte':
                    step += 1
                    if K.ndim == 1: K[(5 * step) % nk] ^= 0x5a
                    else: K[1, (5 * step) % nk] ^= 0x5a
                elif ev == 'Ball':
                    step += 1; B[...] = blocks[(step * 37) % 256] if B.ndim == 1 else blocks[[(step * 37 + j) % 256 for j in range(B.shape[0])]]
                else:
                    mode, r, st = calls[ev]
                    case = {'kind': 'history', 'nk': nk, 'shape': shape, 'sequence': list(seq), 'position': pos}
                    col.evaluations += 1; col.states += 1; col.transitions += 1
                    try:
                        got = _call(aes, mode, B, K, r, st)
                        held.append((pos, got, np.array(got)))
                    except Exception as e:
                        col.violation('C05/history/raised', 'AES-%d %s, call %d of %s: %s: %s' % (nk * 8, shape, pos, list(seq), type(e).__name__, e), case); continue
                    tr = ref(B, K, mode)
                    exp = tr[(nr, 3)] if r is None else tr[(r, st)]
                    if shape == '1b1k': exp = exp[0]
                    if pos and any(e in muts for e in seq[:pos]): col.nontrivial += 1
                    if np.asarray(got).shape != exp.shape or not np.array_equal(np.asarray(got), exp):
                        col.violation('C05/history/%s' % mode, 'AES-%d %s: call %d (%s) of the sequence %s on the same block/key array objects (rewritten in place between calls) does not return the FIPS-197 '
                                      'state for the current array contents: key=%s block=%s got=%s expected=%s' % (nk * 8, shape, pos, ev, list(seq), np.atleast_2d(K)[-1].tolist(), np.atleast_2d(B)[-1].tolist(),
                                                                                                        np.atleast_2d(got)[-1].tolist(), np.atleast_2d(exp)[-1].tolist()), case)
            for pos_, arr, snap in held:
                if not np.array_equal(np.asarray(arr), snap):
                    col.violation('C05/history/earlier-result-rewritten', 'the array returned by call %d of the sequence %s changed during later calls' % (pos_, list(seq)), {'kind': 'history', 'sequence': list(seq), 'position': pos_}); break
            col.outcomes.add(seq)
    col.sample({'check': 'call histories on reused arrays', 'depth': depth, 'menu': menu}, limit=1)


def _layouts(seed, col, aes, R, np):
    """Memory layout / dtype of the block and key arrays is not part of their value: Fortran-ordered, strided and reversed views (and wider integer
    dtypes) must give the FIPS-197 state at every probed stop point, for paired blocks and keys."""
    for nk in NKS:
        blocks, keys = _pool(seed, nk)
        blocks = blocks[:40]; keys = np.vstack([keys] * 3)[:40]
        nr = nk // 4 + 6
        rk = R.round_keys_v(keys)
        enc = R.enc_trace_v(blocks, rk)
        cts = enc[(nr, 3)]
        dec = R.dec_trace_v(cts, rk)
        wideb = np.zeros((80, 32), np.uint8); widek = np.zeros((80, 2 * nk), np.uint8)
        for mode, data, trace in (('enc', blocks, enc), ('dec', cts, dec)):
            views = {'fortran': (np.asfortranarray(data), np.asfortranarray(keys)), 'reversed': (data[::-1], keys[::-1]), 'int64-fortran': (np.asfortranarray(data.astype('int64')), np.asfortranarray(keys.astype('int64')))}
            wb = wideb.copy(); wk = widek.copy(); wb[::2, ::2] = data; wk[::2, ::2] = keys
            views['strided'] = (wb[::2, ::2], wk[::2, ::2])
            for vn, (b, k) in views.items():
                for (r, st) in ((None, None), (0, 3), (1, 0), (nr // 2, 2), (nr, 1)):
                    col.evaluations += 1; col.states += 1; col.transitions += 1; col.nontrivial += 1
                    case = {'view': vn, 'nk': nk, 'mode': mode, 'at_round': r, 'after_step': st}
                    try:
                        got = _call(aes, mode, b, k, r, st)
                    except Exception as e:
                        col.violation('C05/layout/raised', 'AES-%d %s on %s arrays at %s: %s: %s' % (nk * 8, mode, vn, (r, st), type(e).__name__, e), case); continue
                    exp = trace[(nr, 3)] if r is None else trace[(r, st)]
                    if vn == 'reversed': exp = exp[::-1]
                    if np.asarray(got).shape != exp.shape or not np.array_equal(np.asarray(got), exp):
                        col.violation('C05/layout', 'AES-%d %s of %s block/key arrays at stop point %s differs from the FIPS-197 state' % (nk * 8, mode, vn, (r, st)), case)
    col.sample({'check': 'memory layouts', 'views': ['fortran', 'reversed', 'strided', 'int64-fortran']}, limit=1)
