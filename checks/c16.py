"""C16 - a rejected update leaves a distinguisher exactly as it was (E1 with fault events)."""
PROPERTY = 'C16'
LEVEL = 'model_checking'
ENGINE = 'E1'
RULE = ('explicit-state BFS over histories of real distinguisher objects with events U(k) (valid batch of the next k rows), C (compute) and R(kind) (a call the real code refuses: row-count mismatch both ways, '
        'trace length / word count differing from earlier batches, list instead of ndarray for traces / data, DPA data > 1 or float, automatic classes with a value > 255 or < 0, float / 64-bit class data, '
        'two data words for template building, an undeclared hypothesis value for template-DPA matching, matching before build, memory guard firing once): EVERY history over N=4 (quick) / 5 (thorough) rows with at most 2 '
        'refused calls at any position (including first) interleaved with every split and every compute placement; the model treats a call that raises as a no-op; a call of the menu that the implementation accepts is '
        'not a rejection and ends that branch (counted). evaluations = histories represented, distinct_nontrivial = complete histories')
ASSUMPTIONS = ['numpy/numba trusted', 'N<=5 rows, <=2 refused calls per history, <=1 compute between other events', 'only calls that RAISE are constrained (property statement); accepted oddities are reported in counters',
               'the memory guard is driven through a stubbed psutil.virtual_memory for the duration of one call']
TRUSTED = ['mc/refs/frac.py', 'mc/explorer.py state merging on (model state, complete vars() digest)', 'LUT memo', 'scripted clock']
TECHNIQUE = 'explicit-state breadth-first exploration of all accepted/refused call histories (deviation-bounded: <=2 refused calls) on the real objects, reference model (refused call = no-op) and one-batch differential oracle in lock-step'
LEVEL_TEXT = ('Every history of valid batches, computes and at most two refused calls (each kind of refusal the code implements, at every position including the very first call) over N<=4/5 rows is executed on real CPA, '
              'alternative CPA, DPA, ANOVA, NICV, SNR, MIA, template-build, TemplateAttack (built and unbuilt), TemplateDPAAttack and t-test accumulator objects; after every event processed_traces must equal the '
              'accepted rows, every later compute must equal the definition on the accepted rows only and be bit-identical (exact pools) to the one-batch result of those rows, and a valid call after a refused first '
              'call must be accepted.')
LEVEL_NOTE = 'Trusted: numpy, numba, references, digest-based state merging. Bound: N<=5 rows, <=2 refused calls. Calls that the implementation accepts (numpy broadcasting of a 1-word batch, out-of-range data after the first batch) are outside the property.'
DESIGN_REF = 'DESIGN.md section 3, C16'

MENU = {
    'cpa': ('traces_str', 'rows', 'rows_less', 'len', 'len_less', 'words', 'type_traces', 'type_data', 'memory'),
    'cpa_alt': ('rows', 'len', 'words', 'type_traces', 'type_data'),
    'dpa': ('traces_str', 'rows', 'len', 'len_less', 'words', 'type_traces', 'type_data', 'dparange', 'dpafloat', 'dtype', 'memory'),
    'anova': ('traces_str', 'rows', 'rows_less', 'len', 'len_less', 'words', 'type_traces', 'type_data', 'dtype', 'dtype64', 'memory'),
    'nicv': ('rows', 'len', 'words', 'type_data', 'dtype'),
    'snr': ('rows', 'len', 'words', 'type_traces', 'dtype64'),
    'mia': ('traces_str', 'rows', 'len', 'len_less', 'words', 'type_traces', 'type_data', 'dtype', 'dtype64', 'memory'),
    'tplbuild': ('traces_str', 'rows', 'len', 'len_less', 'type_traces', 'type_data', 'tplwords', 'dtype', 'memory'),
    'tplstatic': ('traces_str', 'rows', 'len', 'len_less', 'type_traces', 'type_data'),
    'tpldpa': ('rows', 'len', 'type_traces', 'type_data', 'tplundeclared', 'tplundeclared_last'),
    'tplstatic0': ('rows', 'type_traces'),
    'tpldpa0': ('rows', 'type_data'),
    'ttacc': ('type_traces',),
}
AUTO_MENU = ('rows', 'len', 'words', 'autorange', 'autoneg', 'dtype', 'dtype_small', 'dtype64_small', 'memory')


def bound(tier):
    return {'N': 4 if tier == 'quick' else 5, 'max_rejections': 2, 'max_consecutive_computes': 1}


def shards(tier, seed):
    out = []
    tdts = ['uint8', 'float32'] if tier == 'quick' else ['uint8', 'int16', 'float32', 'float64']
    for grp, cost in (('moments', 3), ('partitioned', 12), ('mia', 5), ('tplbuild', 15), ('tplmatch', 14), ('tplmatch0', 14), ('ttacc', 2)):
        for tdt in tdts:
            for prec in (('float32', 'float64') if tier == 'thorough' or grp in ('moments', 'partitioned') else ('float32',)):
                out.append({'name': '%s-%s-%s' % (grp, tdt, prec), 'group': grp, 'tdt': tdt, 'prec': prec, 'cost': cost})
    for fam in ('cpa', 'dpa', 'anova', 'snr', 'mia'):
        for prec in (('float32',) if tier == 'quick' else ('float32', 'float64')):
            out.append({'name': 'analysis-%s-%s' % (fam, prec), 'group': 'analysis', 'fam': fam, 'prec': prec, 'cost': 8})
    return out


def configs(shard, tier):
    from checks.dsys import GROUPS
    N = 4 if tier == 'quick' else 5
    grp, tdt, prec = shard['group'], shard['tdt'], shard['prec']
    fams = {'tplmatch0': ('tplstatic0', 'tpldpa0')}.get(grp) or GROUPS[grp]
    out = []
    for fam in fams:
        p = prec
        if fam == 'mia': p = 'uint32' if prec == 'float32' else 'float64'
        shape = {'tplbuild': (2, (1,)), 'tplstatic': (2, (3,)), 'tpldpa': (2, (2,)), 'tplstatic0': (2, (3,)), 'tpldpa0': (2, (2,)), 'ttacc': (2, (1,))}.get(fam, (2, (2,)))
        kind = 'exact' if tdt in ('uint8', 'int16') else 'dyadic'
        n = N + 1 if fam == 'tplbuild' else N
        out.append(dict(family=fam, tdt=tdt, prec=p, S=shape[0], wdims=shape[1], pool_kind=kind, N=n, auto=False, policy='alt', rejections=MENU[fam], max_rej=2, max_consecutive_computes=1))
        if fam in ('anova', 'mia', 'snr'):
            out.append(dict(family=fam, tdt=tdt, prec=p, S=shape[0], wdims=shape[1], pool_kind=kind, N=n, auto=True, policy='alt', rejections=AUTO_MENU, max_rej=2, max_consecutive_computes=1))
        if fam == 'mia' and tdt in ('uint8', 'float64', 'int16'):
            # automatic histogram window (no explicit edges): a refused first batch must not leave its window behind
            out.append(dict(family=fam, tdt=tdt, prec=p, S=shape[0], wdims=shape[1], pool_kind='exact', N=n + 1, auto=False, policy='alt', rejections=('rows', 'rows_less', 'dtype', 'dtype64', 'type_data', 'memory'),
                            max_rej=2, max_consecutive_computes=1, auto_edges=True))
        if fam in ('anova', 'nicv', 'snr', 'mia', 'tplbuild') and tdt == 'uint8':
            # a numeric batch that passes every explicit check and is refused by the compiled kernel at dispatch (float16 traces): a small separate system, because each such refusal is slow
            out.append(dict(family=fam, tdt=tdt, prec=p, S=shape[0], wdims=shape[1], pool_kind=kind, N=n, auto=False, policy='alt', rejections=('traces_f16',), max_rej=1, max_consecutive_computes=1))
        if fam == 'cpa' and tier == 'thorough':
            out.append(dict(family=fam, tdt=tdt, prec=p, S=1, wdims=(2, 2), pool_kind=kind, N=n, auto=False, policy='alt', rejections=MENU[fam], max_rej=2, max_consecutive_computes=1))
    return out


def run_shard(shard, ctx):
    from mc.common import Collector
    from mc.refs import frac
    from checks import dsys
    col = Collector()
    if shard.get('replay_case') is not None:
        c = shard['replay_case']
        if 'analysis_system' in c:
            d = c['analysis_system']
            s = AnalysisSystem(d['analysis'], d['kind'], d['precision'], d['convergence_step'], ctx['seed'], N=d['N'])
            obj = s.fresh(); m = s.model_init()
            for ev in c['history']:
                ev = tuple(ev); obs = s.apply(obj, ev); m, viol = s.model_step(m, ev, obs); col.transitions += 1
                for fp, msg in viol: col.violation(fp, msg, c)
            col.evaluations += 1; col.states += 1
            return col.result()
        dsys.replay_case(col, c, PROPERTY)
        return col.result()
    frac.selftest()
    tier, seed = ctx['tier'], ctx['seed']
    if shard['group'] == 'analysis':
        r = _analysis_shard(col, shard, ctx)
        return col.result(raised=r)
    raised = set(); accepted = set()
    for kw in configs(shard, tier):
        s = dsys.DistSystem(seed=seed, **kw)
        e = dsys.explore(col, s, max_depth=3 * kw['N'] + 6, max_dev=2, prop=PROPERTY)
        col.guard(len(s.raised_kinds) > 0, 'vacuity: no call of the rejection menu was refused for %s' % s.describe())
        for k in s.raised_kinds: col.count('refused/%s/%s' % (s.family, k))
        for k in s.accepted_kinds: col.count('accepted-not-a-rejection/%s/%s' % (s.family, k))
        raised |= {(s.family, k) for k in s.raised_kinds}
    col.guard(col.counters.get('compared_with_definition', 0) > 0, 'vacuity: no compute was compared with the definition')
    return col.result(raised=sorted('%s/%s' % x for x in raised))


def finalize(shards_, results, tier, seed):
    kinds = sorted({k for r in results for k in r.get('raised', [])})
    acc = sorted(k for k in {k for r in results for k in r.get('counters', {})} if k.startswith('accepted-not-a-rejection'))
    return {'refused_call_kinds_exercised': kinds, 'menu_calls_accepted_by_the_implementation': acc,
            'histories_represented': sum(r.get('counters', {}).get('histories_represented', 0) for r in results),
            'guard_failures': [] if len(kinds) >= 20 else ['vacuity: only %d (family, kind) refusals exercised' % len(kinds)]}


# ---------------------------------------------------------------------------------------------------------------------
# analysis-level variant: process() / run() steps that raise must leave the analysis as if they had never been made

class AnalysisSystem:
    """Events on a real analysis object (Attack with or without convergence step, or Reverse):
        ('P', k)            process() of a valid batch holding the next k rows
        ('C',)              compute_results()
        ('R', kind)         process() of a batch the pipeline refuses (rows / len / missing metadata / list samples / float data ...)
        ('RUN', k, f)       run() on a container of the next k rows cut in batches of one trace whose preprocess raises on batch f (f < k):
                            the batches before f are accepted steps, the failing step must leave no trace
    Model: number of accepted rows (always a prefix of the pool).  Oracle: results == stand-alone distinguisher fed the accepted rows at once
    (bit-identical, exact pool), scores == discriminant(results), processed_traces == accepted rows."""

    def __init__(self, fam, kind, prec, step, seed, N=5):
        import numpy as np
        from checks import asys
        self.np, self.asys = np, asys
        self.fam, self.kind, self.prec, self.step, self.N = fam, kind, prec, step, N
        self.pool = asys.make_set(N, 3, 2, seed, salt=161)
        self.raised_kinds = set(); self.accepted_kinds = set()
        self.counters = {}
        s = asys.sc()
        self.fail_at = {'i': None, 'n': 0}
        me = self

        @s.preprocess
        def maybe_fail(traces):
            if me.fail_at['i'] is not None:
                me.fail_at['n'] += 1
                if me.fail_at['n'] - 1 == me.fail_at['i']:
                    me._before = me._public(me._current)          # what the analysis shows just before the step that fails
                    raise ValueError('injected preprocess failure')
            return traces
        self.pp = maybe_fail

    def describe(self):
        return {'analysis': self.fam, 'kind': self.kind, 'precision': self.prec, 'convergence_step': self.step, 'N': self.N}

    def _public(self, obj):
        """Everything a user can read off the analysis: counter, results, scores, convergence traces (as bytes)."""
        np = self.np
        def b(x):
            return None if x is None else (np.asarray(x).shape, np.asarray(x).tobytes())
        return (int(obj.processed_traces), b(getattr(obj, 'results', None)), b(getattr(obj, 'scores', None)), b(getattr(obj, 'convergence_traces', None)))

    def fresh(self):
        self._rows = 0
        return self.asys.make_analysis(self.fam, self.kind, self.prec, disc='maxabs', convergence_step=self.step if self.kind == 'attack' else None, fresh_sf=True)

    def digest(self, obj):
        from mc.common import canon_state
        return canon_state(obj)

    def model_init(self):
        return (0, 0, 0, ())          # accepted rows, consecutive computes, refusals, kinds

    def terminal(self, m):
        return m[0] == self.N and m[1] >= 1

    def menu(self, m):
        i, c, nr, rk = m
        out = []
        for k in range(1, self.N - i + 1):
            out.append((('P', k), 0))
        if c < 1 and i > 0:
            out.append((('C',), 0))
        if nr < 2:
            for kind in ('rows', 'len', 'missing', 'list_samples', 'floatdata'):
                if kind == 'len' and i == 0: continue
                if kind == 'floatdata' and self.fam in ('cpa',): continue
                out.append((('R', kind), 1))
            for k in range(2, self.N - i + 1):
                for f in sorted({0, k - 1}):
                    out.append((('RUN', k, f), 1))
        return out

    class _Batch:
        def __init__(self, samples, metadatas):
            self.samples = samples; self.metadatas = metadatas

    def apply(self, obj, ev):
        np = self.np; s = self.asys.sc()
        obs = {'ev': ev, 'exc': None}
        lo = self._rows
        # own the kernel-selection clock (a function of the object's own timing state, see checks/dsys.py)
        from scared.distinguishers import partitioned as P
        from mc import env
        clk = env.install_clock(P)
        clk.dur = float(max(getattr(obj, '_timings', [-2, -1]))) + 1.0; clk._pending = False
        self._current = obj
        self._before = self._public(obj) if ev[0] == 'R' else None
        try:
            if ev[0] == 'P':
                obj.process(self._Batch(self.pool['samples'][lo:lo + ev[1]], {'v': self.pool['v'][lo:lo + ev[1]]}))
                self._rows += ev[1]
            elif ev[0] == 'C':
                obj.compute_results()
                obs['results'] = np.array(obj.results)
                obs['scores'] = None if self.kind != 'attack' else np.array(obj.scores)
            elif ev[0] == 'R':
                k = 2 if lo + 2 <= self.N else 1
                lo2 = min(lo, self.N - k)
                smp = self.pool['samples'][lo2:lo2 + k]; v = self.pool['v'][lo2:lo2 + k]
                kind = ev[1]
                if kind == 'rows': b = self._Batch(smp, {'v': np.concatenate([v, v[:1]])})
                elif kind == 'len': b = self._Batch(np.concatenate([smp, smp[:, :1]], axis=1), {'v': v})
                elif kind == 'missing': b = self._Batch(smp, {'w': v})
                elif kind == 'list_samples': b = self._Batch(smp.tolist(), {'v': v})
                elif kind == 'floatdata': b = self._Batch(smp, {'v': v.astype('float64')})
                obj.process(b)
            elif ev[0] == 'RUN':
                k, f = ev[1], ev[2]
                d = {kk: vv[lo:lo + k] for kk, vv in self.pool.items()}
                self.fail_at['i'] = f; self.fail_at['n'] = 0
                try:
                    with self.asys.BatchSize(1):
                        cont = s.Container(self.asys.ths_of(d), preprocesses=[self.pp])
                        _ = cont.trace_size                      # (evaluated before arming would be cleaner; the probe call counts as call 0 otherwise)
                        self.fail_at['n'] = 0
                        obj.run(cont)
                finally:
                    self.fail_at['i'] = None
                self._rows += k
        except Exception as e:       # noqa - observation
            obs['exc'] = type(e).__name__; obs['exc_msg'] = str(e)[:160]
            if ev[0] == 'RUN':
                self._rows += ev[2]                           # the batches before the failing one were accepted steps
            if ev[0] in ('R', 'RUN') and self._before is not None:
                now = self._public(obj)
                names = ('processed_traces', 'results', 'scores', 'convergence_traces')
                obs['changed_by_refused_step'] = [n for n, a, b in zip(names, self._before, now) if a != b]
                if 'convergence_traces' in obs['changed_by_refused_step'] and self._before[3] is not None and now[3] is not None:
                    obs['columns'] = (self._before[3][0][-1], now[3][0][-1])
        obs['pt'] = int(obj.processed_traces)
        return obs

    def obs_key(self, obs):
        r = obs.get('results')
        return (obs['ev'][0], obs['exc'], obs['pt'], None if r is None else r.tobytes())

    def model_step(self, m, ev, obs):
        np = self.np
        i, c, nr, rk = m
        v = []
        cfg = '%s %s prec=%s convergence_step=%s' % (self.fam, self.kind, self.prec, self.step)
        after = ('after-refused=%s/' % '+'.join(rk)) if rk else ''
        if rk: cfg += ' [after refused steps: %s]' % ', '.join(rk)
        fpb = 'C16/analysis/%s/' % self.fam
        if ev[0] == 'P':
            if obs['exc'] is not None:
                v.append((fpb + after + 'valid-process-raised', '%s: process() of a valid batch of %d rows after %d accepted rows raised %s: %s' % (cfg, ev[1], i, obs['exc'], obs.get('exc_msg'))))
                return (i, 0, nr, rk + ('dead',) * 5), v
            if obs['pt'] != i + ev[1]:
                v.append((fpb + after + 'counter', '%s: processed_traces=%d after %d accepted rows' % (cfg, obs['pt'], i + ev[1])))
            return (i + ev[1], 0, nr, rk), v
        if ev[0] == 'R':
            if obs['exc'] is None:
                self.accepted_kinds.add(ev[1])
                return (self.N, 9, nr + 1, rk), v                # not a rejection: end of branch
            self.raised_kinds.add(ev[1])
            if obs.get('changed_by_refused_step'):
                v.append((fpb + 'refused=%s/changed-%s' % (ev[1], '+'.join(obs['changed_by_refused_step'])), '%s: a refused %s process() changed %s (%d accepted rows before it)' % (cfg, ev[1], obs['changed_by_refused_step'], i)))
            if obs['pt'] != i:
                v.append((fpb + 'refused=%s/counter' % ev[1], '%s: processed_traces=%d right after a refused %s process() with %d accepted rows' % (cfg, obs['pt'], ev[1], i)))
            return (i, 0, nr + 1, rk + (ev[1],)), v
        if ev[0] == 'RUN':
            k, f = ev[1], ev[2]
            if obs['exc'] is None:
                v.append((fpb + 'failing-run-returned', '%s: run() returned although the preprocess raised on batch %d' % (cfg, f)))
                return (self.N, 9, nr + 1, rk), v
            self.raised_kinds.add('run')
            if obs.get('changed_by_refused_step'):
                v.append((fpb + 'failed-run/changed-%s' % '+'.join(obs['changed_by_refused_step']), '%s: the step of run() that failed (batch %d, %d rows accepted before the run) changed %s%s'
                          % (cfg, f, i, obs['changed_by_refused_step'], '' if 'columns' not in obs else ': convergence columns %d -> %d' % obs['columns'])))
            if obs['pt'] != i + f:
                v.append((fpb + 'failed-run/counter', '%s: processed_traces=%d after a run() that failed on its batch %d with %d rows accepted before' % (cfg, obs['pt'], f, i)))
            return (i + f, 0, nr + 1, rk + ('run@%d' % f,)), v
        # compute_results
        if obs['exc'] is not None:
            v.append((fpb + after + 'compute-raised', '%s: compute_results() after %d accepted rows raised %s: %s' % (cfg, i, obs['exc'], obs.get('exc_msg'))))
            return (i, 1, nr, rk), v
        X = self.pool['samples'][:i]; Y = self.asys.intermediate(self.kind, self.pool['v'][:i], self.asys.family_model(self.fam))
        one = self.asys.oneshot(self.fam, self.prec, X, Y)
        res = obs['results']
        if res.shape != one.shape or not np.array_equal(res, one, equal_nan=True):
            v.append((fpb + after + 'results', '%s: results after %d accepted rows differ from the stand-alone distinguisher fed exactly those rows (first values %s vs %s)'
                      % (cfg, i, res.ravel()[:4].tolist(), np.asarray(one).ravel()[:4].tolist())))
        if self.kind == 'attack':
            exp = self.asys.py_discriminant('maxabs', res)
            if obs['scores'] is None or not np.array_equal(obs['scores'], exp, equal_nan=True):
                v.append((fpb + after + 'scores', '%s: scores != discriminant(results) after %d accepted rows' % (cfg, i)))
        if obs['pt'] != i:
            v.append((fpb + after + 'counter', '%s: processed_traces=%d after %d accepted rows (at compute_results)' % (cfg, obs['pt'], i)))
        self.counters['computes_compared'] = self.counters.get('computes_compared', 0) + 1
        return (i, c + 1, nr, rk), v


def _analysis_shard(col, shard, ctx):
    from mc.explorer import Explorer
    tier, seed = ctx['tier'], ctx['seed']
    fam, prec = shard['fam'], shard['prec']
    for kind, step in (('attack', None), ('attack', 2), ('reverse', None)):
        s = AnalysisSystem(fam, kind, prec, step, seed, N=4 if tier == 'quick' else 5)
        e = Explorer(s, max_depth=12, max_dev=2).run()
        rep = e.report()
        col.states += rep['states']; col.transitions += rep['transitions']; col.evaluations += rep['histories_represented']; col.validated += rep['transitions']
        col.nontrivial += rep['complete_histories']
        col.count('histories_represented', rep['histories_represented']); col.count('systems')
        for k, n in s.counters.items(): col.count(k, n)
        for k in s.raised_kinds: col.count('refused/analysis-%s/%s' % (fam, k))
        for k in s.accepted_kinds: col.count('accepted-not-a-rejection/analysis-%s/%s' % (fam, k))
        col.outcomes.update((fam, kind, step, k) for k in e.observations)
        for fp, msg, hist in e.violations:
            col.violation(fp, msg, {'analysis_system': s.describe(), 'history': [list(ev) for ev in hist]})
        col.sample({'analysis_system': s.describe(), 'explorer': rep, 'one_history': [list(ev) for ev in max((n[0] for n in e.nodes), key=len)]}, limit=1)
        col.guard(len(s.raised_kinds) >= 3, 'vacuity: only %s refused for %s' % (sorted(s.raised_kinds), s.describe()))
    return sorted('analysis-%s/%s' % (fam, k) for k in s.raised_kinds)
