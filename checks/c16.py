"""C16 - a rejected update leaves a distinguisher exactly as it was (E1 with fault events)."""
PROPERTY = 'C16'
LEVEL = 'model_checking'
ENGINE = 'E1'
RULE = ('explicit-state BFS over histories of real distinguisher objects with events U(k) (valid batch of the next k rows), C (compute) and R(kind) (a call the real code refuses: row-count mismatch both ways, '
        'trace length / word count differing from earlier batches, list instead of ndarray for traces / data, DPA data > 1 or float, automatic classes with a value > 255 or < 0, float / 64-bit class data, '
        'two data words for template building, an undeclared hypothesis value for template-DPA matching, matching before build, memory guard firing once): EVERY history over N=4 (quick) / 5 (thorough) rows with at most 2 '
        'refused calls at any position (including first) interleaved with every split and every compute placement; the model treats a call that raises as a no-op; a call of the menu that the implementation accepts is '
        'not a rejection and ends that branch (counted). evaluations = histories represented, distinct_nontrivial = complete histories')
ASSUMPTIONS = ['numpy/numba trusted', 'N<=5 rows, <=2 refused calls per history, <=1 compute between other events', 'only calls that RAISE are constrained (property statement); accepted oddities are reported in counters',
               'the memory guard is driven through a stubbed psutil.virtual_memory for the duration of one call']
TRUSTED = ['mc/refs/frac.py', 'mc/explorer.py state merging on (model state, complete vars() digest)', 'LUT memo', 'scripted clock']
TECHNIQUE = 'explicit-state breadth-first exploration of all accepted/refused call histories (deviation-bounded: <=2 refused calls) on the real objects, reference model (refused call = no-op) and one-batch differential oracle in lock-step'
LEVEL_TEXT = ('Every history of valid batches, computes and at most two refused calls (each kind of refusal the code implements, at every position including the very first call) over N<=4/5 rows is executed on real CPA, '
              'alternative CPA, DPA, ANOVA, NICV, SNR, MIA, template-build, TemplateAttack (built and unbuilt), TemplateDPAAttack and t-test accumulator objects; after every event processed_traces must equal the '
              'accepted rows, every later compute must equal the definition on the accepted rows only and be bit-identical (exact pools) to the one-batch result of those rows, and a valid call after a refused first '
              'call must be accepted.')
LEVEL_NOTE = 'Trusted: numpy, numba, references, digest-based state merging. Bound: N<=5 rows, <=2 refused calls. Calls that the implementation accepts (numpy broadcasting of a 1-word batch, out-of-range data after the first batch) are outside the property.'
DESIGN_REF = 'DESIGN.md section 3, C16'

MENU = {
    'cpa': ('traces_str', 'rows', 'rows_less', 'len', 'len_less', 'words', 'type_traces', 'type_data', 'memory'),
    'cpa_alt': ('rows', 'len', 'words', 'type_traces', 'type_data'),
    'dpa': ('traces_str', 'rows', 'len', 'len_less', 'words', 'type_traces', 'type_data', 'dparange', 'dpafloat', 'dtype', 'memory'),
    'anova': ('traces_str', 'rows', 'rows_less', 'len', 'len_less', 'words', 'type_traces', 'type_data', 'dtype', 'dtype64', 'memory'),
    'nicv': ('rows', 'len', 'words', 'type_data', 'dtype'),
    'snr': ('rows', 'len', 'words', 'type_traces', 'dtype64'),
    'mia': ('traces_str', 'rows', 'len', 'len_less', 'words', 'type_traces', 'type_data', 'dtype', 'dtype64', 'memory'),
    'tplbuild': ('traces_str', 'rows', 'len', 'len_less', 'type_traces', 'type_data', 'tplwords', 'dtype', 'memory'),
    'tplstatic': ('traces_str', 'rows', 'len', 'len_less', 'type_traces', 'type_data'),
    'tpldpa': ('rows', 'len', 'type_traces', 'type_data', 'tplundeclared', 'tplundeclared_last'),
    'tplstatic0': ('rows', 'type_traces'),
    'tpldpa0': ('rows', 'type_data'),
    'ttacc': ('type_traces',),
}
AUTO_MENU = ('rows', 'len', 'words', 'autorange', 'autoneg', 'dtype', 'dtype_small', 'dtype64_small', 'memory')


def bound(tier):
    return {'N': 4 if tier == 'quick' else 5, 'max_rejections': 2, 'max_consecutive_computes': 1}


def shards(tier, seed):
    out = []
    tdts = ['uint8', 'float32'] if tier == 'quick' else ['uint8', 'int16', 'float32', 'float64']
    for grp, cost in (('moments', 3), ('partitioned', 12), ('mia', 5), ('tplbuild', 15), ('tplmatch', 14), ('tplmatch0', 14), ('ttacc', 2)):
        for tdt in tdts:
            for prec in (('float32', 'float64') if tier == 'thorough' or grp in ('moments', 'partitioned') else ('float32',)):
                out.append({'name': '%s-%s-%s' % (grp, tdt, prec), 'group': grp, 'tdt': tdt, 'prec': prec, 'cost': cost})
    return out


def configs(shard, tier):
    from checks.dsys import GROUPS
    N = 4 if tier == 'quick' else 5
    grp, tdt, prec = shard['group'], shard['tdt'], shard['prec']
    fams = {'tplmatch0': ('tplstatic0', 'tpldpa0')}.get(grp) or GROUPS[grp]
    out = []
    for fam in fams:
        p = prec
        if fam == 'mia': p = 'uint32' if prec == 'float32' else 'float64'
        shape = {'tplbuild': (2, (1,)), 'tplstatic': (2, (3,)), 'tpldpa': (2, (2,)), 'tplstatic0': (2, (3,)), 'tpldpa0': (2, (2,)), 'ttacc': (2, (1,))}.get(fam, (2, (2,)))
        kind = 'exact' if tdt in ('uint8', 'int16') else 'dyadic'
        n = N + 1 if fam == 'tplbuild' else N
        out.append(dict(family=fam, tdt=tdt, prec=p, S=shape[0], wdims=shape[1], pool_kind=kind, N=n, auto=False, policy='alt', rejections=MENU[fam], max_rej=2, max_consecutive_computes=1))
        if fam in ('anova', 'mia', 'snr'):
            out.append(dict(family=fam, tdt=tdt, prec=p, S=shape[0], wdims=shape[1], pool_kind=kind, N=n, auto=True, policy='alt', rejections=AUTO_MENU, max_rej=2, max_consecutive_computes=1))
        if fam == 'cpa' and tier == 'thorough':
            out.append(dict(family=fam, tdt=tdt, prec=p, S=1, wdims=(2, 2), pool_kind=kind, N=n, auto=False, policy='alt', rejections=MENU[fam], max_rej=2, max_consecutive_computes=1))
    return out


def run_shard(shard, ctx):
    from mc.common import Collector
    from mc.refs import frac
    from checks import dsys
    col = Collector()
    if shard.get('replay_case') is not None:
        dsys.replay_case(col, shard['replay_case'], PROPERTY)
        return col.result()
    frac.selftest()
    tier, seed = ctx['tier'], ctx['seed']
    raised = set(); accepted = set()
    for kw in configs(shard, tier):
        s = dsys.DistSystem(seed=seed, **kw)
        e = dsys.explore(col, s, max_depth=3 * kw['N'] + 6, max_dev=2, prop=PROPERTY)
        col.guard(len(s.raised_kinds) > 0, 'vacuity: no call of the rejection menu was refused for %s' % s.describe())
        for k in s.raised_kinds: col.count('refused/%s/%s' % (s.family, k))
        for k in s.accepted_kinds: col.count('accepted-not-a-rejection/%s/%s' % (s.family, k))
        raised |= {(s.family, k) for k in s.raised_kinds}
    col.guard(col.counters.get('compared_with_definition', 0) > 0, 'vacuity: no compute was compared with the definition')
    return col.result(raised=sorted('%s/%s' % x for x in raised))


def finalize(shards_, results, tier, seed):
    kinds = sorted({k for r in results for k in r.get('raised', [])})
    acc = sorted(k for k in {k for r in results for k in r.get('counters', {})} if k.startswith('accepted-not-a-rejection'))
    return {'refused_call_kinds_exercised': kinds, 'menu_calls_accepted_by_the_implementation': acc,
            'histories_represented': sum(r.get('counters', {}).get('histories_represented', 0) for r in results),
            'guard_failures': [] if len(kinds) >= 20 else ['vacuity: only %d (family, kind) refusals exercised' % len(kinds)]}
