"""C03 - CPA is Pearson correlation, DPA is the difference of class means (engine E3: column packing).

Every N-row trace column over a small alphabet x every N-row data column over a small alphabet is placed in one
update (complete cross product of the per-(word, sample) input space for that N), fed as one batch and as a
2-batch split, for every storage dtype / precision / word-dimension shape; the result matrix is compared entry by
entry with the exact-integer reference, including the NaN pattern of undefined entries.
"""
PROPERTY = 'C03'
LEVEL = 'model_checking'
RULE = ('bounded-exhaustive: all |A|^N trace columns x all |B|^N data columns packed side by side (complete input space of the '
        'per-(word,sample) statistic for N rows), x storage dtypes x precisions x word-dimension shapes x {one batch, two batches}; '
        'a case = one (configuration, trace column, data column) triple, all distinct by construction; non-trivial = the exact '
        'reference says the statistic is defined (non-constant sample and word / both bit classes non-empty)')
ASSUMPTIONS = ['numpy/numba are trusted', 'float pools are compared with tolerance 2^-12 (float32) / 2^-36 (float64) relative to max(|ref|, floor)',
               'inputs limited to N<=6 rows and 3-4 letter alphabets (small-scope)']
TRUSTED = ['mc/refs/stats.py (exact int64 reference, self-tested against statistics.correlation at start-up)']


def bound(tier):
    return {'N': [2, 3, 4, 5] if tier == 'quick' else [2, 3, 4, 5, 6], 'alphabet_letters': 4, 'alphabet_letters_N6': 3}


DISTS = ('cpa', 'alt', 'dpa')


def shards(tier, seed):
    out = []
    ns = [2, 3, 4, 5] if tier == 'quick' else [2, 3, 4, 5, 6]
    for dist in DISTS:
        for prec in ('float32', 'float64'):
            for n in ns:
                out.append({'name': '%s-%s-N%d' % (dist, prec, n), 'dist': dist, 'prec': prec, 'N': n, 'cost': 4 ** n})
    return out


def _alphabets(seed, n, dist, tier):
    import numpy as np
    from mc.common import rng_for
    rng = rng_for(seed, 'c03', n)
    letters = 4 if n <= 5 else 3
    base_x = [[0, 1, 2, 5], [-3, 0, 1, 4], [0, 1, 3, 12]]          # third one is dyadic*8 (scaled by 1/8 for float storage)
    extra = sorted(rng.choice(16, letters, replace=False).tolist())
    wide = [0, 100, 200, 250]                                      # exactly representable in every storage dtype incl. float16, but its squares
    xs = [a[:letters] for a in base_x] + [extra, wide[:letters]]   # and sums are NOT representable in float16: storage must be promoted first
    if dist == 'dpa':
        xs.append([0, 1001, 1050, 2047][:letters])                  # each value is a float16, sums of two or more are not (odd integers above 2048): class sums must be taken in the working precision
    ys = [[0, 1, 2, 3][:letters], sorted(rng.choice(8, letters, replace=False).tolist())] if dist != 'dpa' else [[0, 1]]
    return xs, ys


def _fits(vals, dt):
    import numpy as np
    if dt.startswith('float'):
        return True
    info = np.iinfo(dt)
    return min(vals) >= info.min and max(vals) <= info.max


def run_shard(shard, ctx):
    import numpy as np
    import scared
    from mc.common import Collector, all_columns, compare, first_index, TOL
    from mc.refs import stats
    stats.selftest()
    tier, seed = ctx['tier'], ctx['seed']
    dist, prec, n = shard['dist'], shard['prec'], shard['N']
    col = Collector()
    tol = TOL[prec]
    mk = {'cpa': scared.CPADistinguisher, 'alt': scared.CPAAlternativeDistinguisher, 'dpa': scared.DPADistinguisher}[dist]
    xs, ys = _alphabets(seed, n, dist, tier)
    tdtypes = ['uint8', 'int8', 'int16', 'uint16', 'int32', 'float16', 'float32', 'float64'] if tier == 'thorough' or n <= 4 else ['uint8', 'int16', 'float16', 'float32', 'float64']
    ddtypes = ['uint8'] if dist == 'dpa' else (['uint8', 'uint16', 'int16', 'int32', 'float16'] if tier == 'thorough' else ['uint8', 'int16', 'float16'])
    seen_def = seen_undef = 0
    for ax_i, ax in enumerate(xs):
        X = all_columns(ax, n)                       # (n, |A|^n) python ints
        # word counts: the complete |B|^n columns, and for n = 5 also the first 300 and 257 of them (more than 256 words, not a multiple of 256: any blocking of the word axis has a remainder)
        yvars = [(ay, None) for ay in ys] + ([(ys[0], 300), (ys[0], 257)] if n == 5 and len(ys[0]) ** n > 300 and ax_i in (0, 3) else [])
        for ay, trunc in yvars:
            Y = all_columns(ay, n)
            if trunc: Y = Y[:, :trunc]
            if dist == 'dpa':
                ref, defined = stats.dpa_ref(X, Y)
                floor = float(max(1, max(abs(v) for v in ax)))
            else:
                ref, defined = stats.pearson_ref(X, Y)
                floor = 1.0
            W = Y.shape[1]
            shapes = [(W,)]
            if n >= 3 and W % 4 == 0:
                shapes += [(4, W // 4)]
                if W % 16 == 0: shapes += [(2, 2, W // 4)] if tier == 'quick' else [(2, 2, W // 4), (W // 16, 4, 4)]
            for tdt in tdtypes:
                scale = 1.0
                if ax_i == 2:                           # dyadic pool: only meaningful in float storage
                    if not tdt.startswith('float'): continue
                    scale = 0.125
                if not _fits(ax, tdt): continue
                Xs = (X * scale).astype(tdt)
                for ddt in ddtypes:
                    if not _fits(ay, ddt): continue
                    for shp in shapes:
                        for split in (None, 1, n - 1) if n > 2 else (None, 1):
                            if split is not None and shp != shapes[0] and split != 1: continue
                            Yd = Y.astype(ddt).reshape((n,) + shp)
                            # memory layout is not part of the value of an array: Fortran-ordered and strided batches must give the same result
                            lay = ((ax_i + n + len(ddt)) % 2 + 1 if split is None else 0) if len(shp) > 1 else 0       # layouts apply to whole batches (a slice of a Fortran array is neither C nor F contiguous)
                            if lay == 1:
                                Yd = np.asfortranarray(Yd)
                            elif lay == 2:
                                big = np.zeros((n,) + tuple(2 * d for d in shp), dtype=ddt); Yd_c = Yd
                                Yd = big[(slice(None),) + tuple(slice(0, None, 2) for _ in shp)]; Yd[...] = Yd_c
                            d = mk(precision=prec)
                            try:
                                if split is None:
                                    d.update(Xs, Yd)
                                else:
                                    d.update(Xs[:split], Yd[:split])
                                    if split > 1: d.compute()                 # a result asked for between batches
                                    d.update(Xs[split:], Yd[split:])
                                got = d.compute()
                                if split is not None or shp != shapes[0]:
                                    got = d.compute()                         # asked again: still the statistic of all processed traces
                            except Exception as e:
                                col.violation('C03/%s/raised' % dist, 'unexpected %s: %s' % (type(e).__name__, e),
                                              {'x_alphabet': ax, 'y_alphabet': ay, 'N': n, 'tdtype': tdt, 'ddtype': ddt, 'shape': shp, 'split': split, 'prec': prec})
                                continue
                            col.transitions += 2 if split is None else 3
                            case = {'dist': dist, 'x_alphabet': ax, 'scale': scale, 'y_alphabet': ay, 'N': n, 'tdtype': tdt, 'ddtype': ddt,
                                    'word_shape': list(shp), 'split': split, 'prec': prec}
                            exp_shape = shp + (X.shape[1],)
                            if got.shape != exp_shape:
                                col.violation('C03/%s/layout-shape' % dist, 'result shape %s, expected %s' % (got.shape, exp_shape), case)
                                continue
                            g = got.reshape(W, -1)
                            r = ref * (scale if dist == 'dpa' else 1.0)
                            c = compare(g, r, defined, tol, floor * (scale if dist == 'dpa' else 1.0))
                            ncases = defined.size
                            col.evaluations += ncases
                            col.nontrivial += int(defined.sum())
                            col.states += ncases
                            seen_def += int(defined.sum()); seen_undef += int((~defined).sum())
                            for kind in ('undefined_bad', 'defined_bad', 'value_bad'):
                                k = int(c[kind].sum())
                                if k:
                                    w, s = first_index(c[kind])
                                    fp = 'C03/%s/%s%s' % (dist, kind, '' if shp == shapes[0] else '/word-dims')
                                    col.violations_n(fp, k, '%s: x=%s y=%s got=%r ref=%r (%d entries of this configuration)'
                                                     % (kind, Xs[:, s].tolist(), Y[:, w].tolist(), float(g[w, s]), float(r[w, s]), k),
                                                     dict(case, x=Xs[:, s].tolist(), y=Y[:, w].tolist(), got=float(g[w, s]), ref=None if not defined[w, s] else float(r[w, s])),
                                                     unit_test=_unit_test(dist, prec, Xs[:, s].tolist(), tdt, Y[:, w].tolist(), ddt, split, None if not defined[w, s] else float(r[w, s])))
                            col.err('%s/%s' % (dist, prec), c['max_err'])
                            col.sample({'dist': dist, 'prec': prec, 'tdtype': tdt, 'x': Xs[:, min(7, Xs.shape[1] - 1)].tolist(), 'y': Y[:, min(5, W - 1)].tolist(),
                                        'ref': None if not defined[min(5, W - 1), min(7, Xs.shape[1] - 1)] else float(r[min(5, W - 1), min(7, Xs.shape[1] - 1)])}, limit=1)
    # seeded float pool (tolerance only, defined entries only)
    from mc.common import rng_for
    rng = rng_for(seed, 'c03-float', dist, prec, n)
    nn = n + 3
    Xf = np.round(rng.uniform(-4, 4, (nn, 24)) * 64) / 64          # exactly representable in float32
    Yf = rng.randint(0, 2 if dist == 'dpa' else 6, (nn, 10))
    Yf[0, :] = 0; Yf[1, :] = 1
    sc = 64
    if dist == 'dpa':
        ref, defined = stats.dpa_ref((Xf * sc).astype('int64'), Yf); ref = ref / sc; floor = 4.0
    else:
        ref, defined = stats.pearson_ref((Xf * sc).astype('int64'), Yf); floor = 1.0
    for tdt in ('float32', 'float64'):
        d = mk(precision=prec)
        d.update(Xf[:2].astype(tdt), Yf[:2].astype('uint8')); d.update(Xf[2:].astype(tdt), Yf[2:].astype('uint8'))
        got = d.compute()
        c = compare(got, ref, defined, tol, floor)
        col.evaluations += defined.size; col.nontrivial += int(defined.sum()); col.states += defined.size; col.transitions += 3
        bad = c['defined_bad'] | c['value_bad']
        if bad.any():
            w, s = first_index(bad)
            col.violations_n('C03/%s/float-pool' % dist, int(bad.sum()), 'float pool: x=%s y=%s got=%r ref=%r' % (Xf[:, s].tolist(), Yf[:, w].tolist(), float(got[w, s]), float(ref[w, s])),
                             {'dist': dist, 'prec': prec, 'tdtype': tdt, 'x': Xf[:, s].tolist(), 'y': Yf[:, w].tolist()})
        col.err('%s/%s/floatpool' % (dist, prec), c['max_err'])
    col.guard(seen_def > 0 and seen_undef > 0, 'vacuity: defined=%d undefined=%d entries' % (seen_def, seen_undef))
    return col.result()


def _unit_test(dist, prec, x, tdt, y, ddt, split, ref):
    cls = {'cpa': 'CPADistinguisher', 'alt': 'CPAAlternativeDistinguisher', 'dpa': 'DPADistinguisher'}[dist]
    return ("import numpy as np, scared\n"
            "def test_replay():\n"
            "    x = np.array(%r, dtype=%r)[:, None]; y = np.array(%r, dtype=%r)[:, None]\n"
            "    d = scared.%s(precision=%r)\n"
            "    %s\n"
            "    got = d.compute()[0, 0]\n"
            "    %s\n") % (x, tdt, y, ddt, cls, prec,
                          'd.update(x, y)' if split is None else 'd.update(x[:%d], y[:%d]); d.update(x[%d:], y[%d:])' % (split, split, split, split),
                          'assert np.isnan(got)  # statistic undefined' if ref is None else 'assert abs(got - %r) <= 2**-12' % ref)

ENGINE = 'E3'
TECHNIQUE = 'bounded-exhaustive enumeration of the complete per-(word,sample) input space (column packing) on the real distinguishers, exact-integer reference model in lock-step'
LEVEL_TEXT = ('Every (trace column, data column) pair over 3-4 letter alphabets with N<=5 (quick) / N<=6 (thorough) rows is executed on the real CPA / alternative CPA / DPA '
              'distinguishers for every storage dtype, precision, word-dimension shape and one-/two-batch feeding and compared entry by entry (value, NaN pattern, layout) '
              'with an exact-integer definition. Complete within the bound; nothing is sampled.')
LEVEL_NOTE = 'Trusted: numpy, the int64 reference (self-tested). Bound: N<=6 rows, small integer/dyadic alphabets plus one seeded well-conditioned float pool compared with tolerance.'
DESIGN_REF = 'DESIGN.md section 3, C03'
