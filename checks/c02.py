"""C02 - Analysis.run on a Container equals the one-shot statistic on the whole trace set (E1 over run histories, E3 over configurations)."""
PROPERTY = 'C02'
LEVEL = 'model_checking'
ENGINE = 'E1'
RULE = ('exhaustive enumeration of (trace-set size N, batch-size setting) and of run() histories on real analysis objects: (a) recorder pipeline - a harness Distinguisher subclass records what run() feeds it: '
        'every (N in 1..9) x (integer batch size 1..10), MB-float settings and size tables straddling the trace length, every frame of a 17-entry menu (None, slices, stepped / reversed slices, index lists incl. unsorted, repeated '
        'and negative indices, ndarrays, ascending / descending / negative ranges, single point) x every chain of a 9-entry menu of row-wise preprocess chains (order-sensitive, length-changing), Attack and Reverse, histories of 1..3 run() calls with the '
        'batch size changed in between; (b) real distinguishers - CPA/DPA/ANOVA/NICV/SNR/MIA x Attack/Reverse x precision on every (N, batch size) pair, explicit and first-batch-determined class sets, every '
        'discriminant, two- and three-run histories vs. one run on the concatenation. A case = one run history; non-trivial = more than one batch or more than one run')
ASSUMPTIONS = ['numpy/numba/estraces trusted', 'preprocesses in chains are row-wise (batch-mean centering is excluded by the property)', 'exact pools: stand-alone one-batch results must be bit-identical',
               'MB-float batch sizes: only uniformity of the batches (all equal but the last, >= 10) is required, the documented MB formula is not modelled']
TRUSTED = ['mc/refs/frac.py', 'checks/asys.py numpy re-statement of frame/preprocess chain/selection function/model', 'LUT memo']
TECHNIQUE = 'exhaustive enumeration of (size, batch-size, frame, preprocess-chain, run-history) configurations on the real analysis pipeline with a recording distinguisher and a one-batch stand-alone differential oracle plus exact definitions'
LEVEL_TEXT = ('Every (N<=9, batch size<=10) pair, frame, preprocess chain and 1..3-run history is executed through the real Container/run()/process()/update() pipeline; a recording distinguisher shows that every '
              'trace reaches the distinguisher exactly once, in order, framed then preprocessed in list order and paired with its own metadata; every real analysis class must give results bit-identical (exact pools) '
              'to its stand-alone distinguisher fed everything at once and equal to the definition, scores == discriminant(results), and several runs must equal one run on the concatenation.')
LEVEL_NOTE = 'Trusted: numpy, numba, estraces RAM reader, references. Bound: N<=9 per container (25 for MB-float settings), <=3 runs, 6-sample traces.'
DESIGN_REF = 'DESIGN.md section 3, C02'

FRAMES = [('none', None), ('slice', slice(1, 4)), ('step', slice(0, 6, 2)), ('list', [0, 2, 3]), ('ndarray', 'np:4,1'), ('range', range(2, 5)), ('single', [3]),
          ('unsorted', [0, 2, 1, 3]), ('repeat', [2, 4, 4, 5]), ('nd-unsorted', 'np:1,3,2,4'), ('ellipsis', Ellipsis), ('neg', slice(-3, None)),
          ('range-desc', range(5, -1, -1)), ('range-neg', range(-3, 0)), ('list-neg', [-1, 0, -2]), ('slice-rev', slice(None, None, -1)), ('nd-neg', 'np:-1,2'), ('slice-rev-step', slice(4, None, -2))]
CHAINS = [[], ['affine'], ['affine', 'cube_minus'], ['cube_minus', 'affine'], ['drop_first'], ['pairsum', 'affine'], ['square'], ['serialize_bit'], ['drop_first', 'pairsum', 'cube_minus']]


def bound(tier):
    return {'N': list(range(1, 10)), 'batch_sizes': list(range(1, 11)), 'frames': len(FRAMES), 'chains': len(CHAINS), 'max_runs': 3}


def shards(tier, seed):
    out = [{'name': 'pipeline-%s' % k, 'kind': 'pipeline', 'part': k, 'cost': 4} for k in ('sizes', 'frames', 'settings', 'histories')]
    precs = ('float32', 'float64')
    for fam in ('cpa', 'dpa', 'anova', 'nicv', 'snr', 'mia'):
        for prec in precs:
            out.append({'name': 'real-%s-%s' % (fam, prec), 'kind': 'real', 'fam': fam, 'prec': prec, 'cost': 12 if fam in ('anova', 'nicv', 'snr') else 5})
    return out


def _frame(spec):
    import numpy as np
    if isinstance(spec, str) and spec.startswith('np:'):
        return np.array([int(t) for t in spec[3:].split(',')])
    return spec


def run_shard(shard, ctx):
    from mc.common import Collector
    from mc.refs import frac
    col = Collector()
    frac.selftest()
    if shard.get('replay_case') is not None:
        c = shard['replay_case']
        if c['what'] == 'pipeline': _pipeline_case(col, ctx['seed'], c)
        else: _real_case(col, ctx['seed'], c)
        return col.result()
    if shard['kind'] == 'pipeline':
        _pipeline(col, shard, ctx)
    else:
        _real(col, shard, ctx)
    return col.result()


# ------------------------------------------------------------------------------------------------------------ recorder pipeline
def _pipeline(col, shard, ctx):
    tier, seed = ctx['tier'], ctx['seed']
    part = shard['part']
    cases = []
    if part == 'sizes':
        for n in range(1, 10):
            for bs in range(1, 11):
                for kind in ('attack', 'reverse'):
                    cases.append({'what': 'pipeline', 'runs': [[n, bs]], 'kind': kind, 'frame': 0, 'chain': 0})
    elif part == 'frames':
        for fi in range(len(FRAMES)):
            for ci in range(len(CHAINS)):
                for n, bs in ((7, 3), (5, 5), (4, 6), (9, 2)) if tier == 'thorough' else ((7, 3), (4, 6)):
                    cases.append({'what': 'pipeline', 'runs': [[n, bs]], 'kind': 'attack' if (fi + ci) % 2 else 'reverse', 'frame': fi, 'chain': ci})
    elif part == 'settings':
        for n in (1, 9, 10, 11, 19, 20, 21, 25):
            for mb in (0.00001, 0.00012, 0.0002, 0.00031):
                for ci in (0, 7):
                    cases.append({'what': 'pipeline', 'runs': [[n, mb]], 'kind': 'reverse', 'frame': 0, 'chain': ci})
        # budgets that give a non-integer number of traces per batch between 10 and 100 (10.83, 19.83 for 6-sample traces), on sets long enough for the fraction to add up to whole batches
        for n, mb in ((140, 65.5 / 2 ** 20), (151, 65.5 / 2 ** 20), (333, 65.5 / 2 ** 20), (500, 119.5 / 2 ** 20), (140, 0.9 / 2 ** 20), (1200, 660.5 / 2 ** 20)):
            for ci in (0, 7):
                cases.append({'what': 'pipeline', 'runs': [[n, mb]], 'kind': 'reverse', 'frame': 0, 'chain': ci})
        for n in (1, 4, 5, 7):
            for tab in ([[0, 3], [6, 2]], [[0, 3], [7, 2]], [[0, 4], [5, 1], [7, 3]], [[0, 2]], [[0, 5], [6, 1], [48, 2]], [[0, 5], [6, 1], [49, 2]]):
                for ci in (0, 7):
                    cases.append({'what': 'pipeline', 'runs': [[n, tab]], 'kind': 'attack', 'frame': 0, 'chain': ci})
    else:
        sizes = (1, 2, 3, 5)
        for a in sizes:
            for b in sizes:
                for bsa in (1, 2, 4):
                    for bsb in (1, 3, 4):
                        cases.append({'what': 'pipeline', 'runs': [[a, bsa], [b, bsb]], 'kind': 'attack' if (a + b) % 2 else 'reverse', 'frame': (a + bsb) % len(FRAMES), 'chain': (b + bsa) % len(CHAINS)})
        # the same Container object reused after an iteration over its batches was abandoned (a run() that raised on a non-last batch, a
        # user peeking at the first batch): the next run() must still see every trace
        for n, bs in ((5, 2), (7, 3), (4, 1), (6, 6)):
            for how in ('raise', 'peek', 'half-loop'):
                cases.append({'what': 'pipeline', 'runs': [[n, bs]], 'kind': 'reverse' if n % 2 else 'attack', 'frame': 0, 'chain': 0, 'interrupt': how})
        for a, b, c in ((1, 1, 1), (2, 3, 1), (3, 1, 4), (4, 4, 4), (1, 5, 2)):
            for bss in ((1, 2, 3), (3, 3, 3), (2, 10, 1)):
                cases.append({'what': 'pipeline', 'runs': [[a, bss[0]], [b, bss[1]], [c, bss[2]]], 'kind': 'attack', 'frame': 3, 'chain': 2})
    for c in cases:
        _pipeline_case(col, seed, c)
    col.guard(col.counters.get('multi_batch_runs', 0) > 0 and col.counters.get('tail_batches', 0) + col.counters.get('exact_multiple_runs', 0) > 0, 'vacuity: no multi-batch run in %s' % part)


def _expected_table_bs(tab, length):
    for i in range(len(tab)):
        lo = tab[i][0]; hi = tab[i + 1][0] if i + 1 < len(tab) else None
        if length >= lo and (hi is None or length < hi):
            return tab[i][1]
    return tab[-1][1]


def _pipeline_case(col, seed, c):
    import numpy as np
    from checks import asys
    s = asys.sc()
    RecAttack, RecReverse = asys.recorder_classes()
    pp = asys.preprocesses()
    frame = _frame(FRAMES[c['frame']][1]); chain = CHAINS[c['chain']]
    kind = c['kind']
    sf = asys.selection(kind)
    a = RecAttack(selection_function=sf, model=s.Value(), discriminant=s.nansum, precision='float64') if kind == 'attack' else RecReverse(selection_function=sf, model=s.Value(), precision='float64')
    sets = []; first = 0
    label = 'runs=%s kind=%s frame=%s chain=%s%s' % (c['runs'], kind, FRAMES[c['frame']][0], chain, '' if not c.get('interrupt') else ' after an abandoned iteration (%s) over the same container' % c['interrupt'])
    for ri, (n, bs) in enumerate(c['runs']):
        d = asys.make_set(n, 6, 2, seed, salt=ri, first=first, wide=(kind == 'reverse')); first += n; sets.append(d)      # reverse analyses are fed 16-bit values that outgrow 8 bits after a few rows
        cont_kw = {'preprocesses': [pp[name] for name in chain]}
        if frame is not None: cont_kw['frame'] = frame
        nrec = len(getattr(a, 'rec', []))
        bsv = [tuple(t) for t in bs] if isinstance(bs, list) else bs
        try:
            with asys.BatchSize(bsv):
                cont = s.Container(asys.ths_of(d), **cont_kw)
                how = c.get('interrupt')
                if how == 'raise':
                    bad = (RecAttack(selection_function=asys.selection('attack', fresh=True), model=s.Value(), discriminant=s.nansum, precision='float64') if kind == 'attack'
                           else RecReverse(selection_function=asys.selection('reverse', fresh=True), model=s.Value(), precision='float64'))
                    bad._update = None                                   # a distinguisher whose update fails on the very first batch
                    try:
                        bad.run(cont)
                    except Exception:
                        pass
                elif how == 'peek':
                    next(iter(cont.batches()))
                elif how == 'half-loop':
                    for bi, _b in enumerate(cont.batches()):
                        if bi == 0: break
                a.run(cont)
        except Exception as e:
            col.violation('C02/pipeline/run-raised', '%s: run() raised %s: %s' % (label, type(e).__name__, str(e)[:200]), c); return
        col.transitions += 1
        new = a.rec[nrec:]
        sizes = [t.shape[0] for t, _ in new]
        if any(z <= 0 for z in sizes):
            col.violation('C02/pipeline/empty-batch', '%s: an empty batch was fed (%s)' % (label, sizes), c)
        exp_bs = None
        if isinstance(bs, int): exp_bs = bs
        elif isinstance(bs, list):
            raw_len = asys.frame_np(d['samples'], frame).shape[1]
            out_len = asys.apply_chain_np(asys.frame_np(d['samples'][:1], frame), chain).shape[1]
            exp_bs = _expected_table_bs(bs, max(raw_len, out_len))
        if exp_bs is not None:
            want = [exp_bs] * (n // exp_bs) + ([n % exp_bs] if n % exp_bs else [])
            if sizes != want:
                col.violation('C02/pipeline/batch-sizes', '%s: batches of sizes %s, expected %s for batch-size setting %s' % (label, sizes, want, bs), c)
        else:
            if len(sizes) > 1 and (len(set(sizes[:-1])) != 1 or sizes[-1] > sizes[0] or sizes[0] < 10):
                col.violation('C02/pipeline/batch-sizes', '%s: non-uniform batches %s for MB setting %s' % (label, sizes, bs), c)
        if len(sizes) > 1:
            col.count('multi_batch_runs')
            col.count('tail_batches' if sizes[-1] != sizes[0] else 'exact_multiple_runs')
        if sum(sizes) != n:
            col.violation('C02/pipeline/rows-lost-or-duplicated', '%s: %d rows fed for a %d-trace container (batches %s)' % (label, sum(sizes), n, sizes), c)
        # state after this run: everything recorded so far == the concatenation, framed then preprocessed in list order, paired with own metadata
        allset = asys.concat(sets)
        T = np.concatenate([t for t, _ in a.rec], axis=0) if a.rec else np.zeros((0, 0))
        D = np.concatenate([dd for _, dd in a.rec], axis=0)
        expT = asys.apply_chain_np(asys.frame_np(allset['samples'], frame), chain)
        expD = asys.intermediate(kind, allset['v'], 'value').reshape(len(allset['v']), -1)
        if T.shape != expT.shape or not np.array_equal(T, expT):
            why = 'shape %s vs %s' % (T.shape, expT.shape)
            if T.shape == expT.shape:
                r = int(np.argwhere((T != expT).any(axis=1))[0][0]); why = 'first differing row %d: fed %s expected %s' % (r, T[r].tolist()[:8], expT[r].tolist()[:8])
            col.violation('C02/pipeline/traces', '%s: traces fed to the distinguisher differ from preprocesses(samples[:, frame]) of the whole set in order: %s' % (label, why), c)
        if D.shape != expD.shape or not np.array_equal(D, expD):
            col.violation('C02/pipeline/data', '%s: intermediate values fed differ from model(selection_function(metadata)) of the same rows (mis-pairing or loss)' % label, c)
        if a.processed_traces != len(allset['idx']):
            col.violation('C02/pipeline/counter', '%s: processed_traces=%d after %d traces' % (label, a.processed_traces, len(allset['idx'])), c)
        expR = expD.astype('float64').T @ expT.astype('float64')
        if a.results is None or np.asarray(a.results).size != expR.size or not np.array_equal(np.asarray(a.results).reshape(expR.shape), expR):
            col.violation('C02/pipeline/results-stale', '%s: results after run %d are not the compute() of the state after that run' % (label, ri + 1), c)
        if kind == 'attack' and not np.array_equal(a.scores, asys.py_discriminant('nansum', np.asarray(a.results)), equal_nan=True):
            col.violation('C02/pipeline/scores', '%s: scores != discriminant(results)' % label, c)
    col.evaluations += 1; col.states += len(a.rec) + 1
    if len(c['runs']) > 1 or len(a.rec) > 1: col.nontrivial += 1
    col.outcomes.add((kind, c['frame'], c['chain'], tuple(t.shape[0] for t, _ in a.rec)))
    col.sample({'case': c, 'batches_fed': [t.shape[0] for t, _ in a.rec]}, limit=2)


# ------------------------------------------------------------------------------------------------------------ real distinguishers
def _real(col, shard, ctx):
    tier, seed = ctx['tier'], ctx['seed']
    fam, prec = shard['fam'], shard['prec']
    from checks import asys
    cases = []
    discs = asys.DISCRIMINANTS
    k = 0
    for kind in ('attack', 'reverse'):
        for n in range(1, 10):
            for bs in range(1, 11):
                cases.append({'what': 'real', 'fam': fam, 'prec': prec, 'kind': kind, 'runs': [[n, bs]], 'frame': 0, 'chain': 0, 'disc': discs[k % 5], 'auto': False, 'pool': 'exact', 'S': 3, 'W': 2}); k += 1
    # frames / chains / automatic class sets / float pool at selected sizes
    for kind in ('attack', 'reverse'):
        for fi in range(len(FRAMES)):
            for ci in ((0, 1, 4) if tier == 'quick' else range(len(CHAINS))):
                if CHAINS[ci] == ['serialize_bit'] or fam == 'mia' and ci: continue
                cases.append({'what': 'real', 'fam': fam, 'prec': prec, 'kind': kind, 'runs': [[7, 3]], 'frame': fi, 'chain': ci, 'disc': discs[k % 5], 'auto': False, 'pool': 'exact', 'S': 6, 'W': 2}); k += 1
        for n, bs in ((5, 2), (6, 6), (3, 7)):
            if fam in ('anova', 'nicv', 'snr', 'mia'):
                cases.append({'what': 'real', 'fam': fam, 'prec': prec, 'kind': kind, 'runs': [[n, bs]], 'frame': 0, 'chain': 0, 'disc': discs[k % 5], 'auto': True, 'pool': 'exact', 'S': 3, 'W': 2}); k += 1
            cases.append({'what': 'real', 'fam': fam, 'prec': prec, 'kind': kind, 'runs': [[n, bs]], 'frame': 1, 'chain': 0, 'disc': discs[k % 5], 'auto': False, 'pool': 'float', 'S': 4, 'W': 2}); k += 1
    # run histories
    sizes = (1, 2, 4) if tier == 'quick' else (1, 2, 3, 5)
    for kind in ('attack', 'reverse'):
        for a in sizes:
            for b in sizes:
                for bsa, bsb in ((1, 3), (2, 2), (4, 1), (10, 3)):
                    cases.append({'what': 'real', 'fam': fam, 'prec': prec, 'kind': kind, 'runs': [[a, bsa], [b, bsb]], 'frame': 0, 'chain': 0, 'disc': discs[k % 5], 'auto': False, 'pool': 'exact', 'S': 3, 'W': 2}); k += 1
        for rr in ([[2, 1], [3, 2], [1, 1]], [[1, 4], [1, 4], [4, 3]], [[3, 2], [2, 5], [3, 3]]):
            cases.append({'what': 'real', 'fam': fam, 'prec': prec, 'kind': kind, 'runs': rr, 'frame': 3, 'chain': 1 if fam != 'mia' else 0, 'disc': discs[k % 5], 'auto': False, 'pool': 'exact', 'S': 6, 'W': 3}); k += 1
    # attacks are also run with a convergence step (it must not change results/scores, and it re-derives the batch size)
    extra = []
    for j, c in enumerate(cases):
        if c['kind'] == 'attack' and c['pool'] == 'exact' and c['chain'] == 0 and c['frame'] in (0, 3):
            for step in ((1, 2, 3, 4, 5, 7)[j % 6],) if len(c['runs']) == 1 else (2, 3, 4):
                extra.append(dict(c, step=step))
    for c in cases + extra:
        _real_case(col, seed, c)
    col.guard(col.counters.get('compared_with_definition', 0) > 0, 'vacuity: nothing compared with the definition')
    col.guard(col.counters.get('bit_identical_to_oneshot', 0) > 0, 'vacuity: nothing compared with the one-batch result')


def _real_case(col, seed, c):
    import numpy as np
    from checks import asys
    from mc.common import compare, TOL
    s = asys.sc()
    fam, prec, kind = c['fam'], c['prec'], c['kind']
    pp = asys.preprocesses()
    frame = _frame(FRAMES[c['frame']][1]); chain = CHAINS[c['chain']]
    label = '%s %s prec=%s runs=%s frame=%s chain=%s disc=%s auto=%s pool=%s step=%s' % (fam, kind, prec, c['runs'], FRAMES[c['frame']][0], chain, c['disc'], c['auto'], c['pool'], c.get('step'))
    tdt = 'uint8' if c['pool'] == 'exact' else 'float32'
    if asys.apply_chain_np(asys.frame_np(np.zeros((1, c['S']), 'uint8'), frame), chain).shape[1] == 0:
        col.count('degenerate_zero_sample_configurations_skipped'); return
    try:
        a = asys.make_analysis(fam, kind, prec, disc=c['disc'], auto=c['auto'], convergence_step=c.get('step'))
    except Exception as e:
        col.violation('C02/%s/ctor-raised' % fam, '%s: %s %s' % (label, type(e).__name__, e), c); return
    sets = []; first = 0
    tol = TOL['float64' if fam == 'mia' else prec]
    for ri, (n, bs) in enumerate(c['runs']):
        d = asys.make_set(n, c['S'], c['W'], seed, salt=ri + 10 * c['W'], first=first, tdt=tdt, kind=c['pool']); first += n; sets.append(d)
        cont_kw = {'preprocesses': [pp[name] for name in chain]}
        if frame is not None: cont_kw['frame'] = frame
        try:
            with asys.BatchSize(bs):
                a.run(s.Container(asys.ths_of(d), **cont_kw))
        except Exception as e:
            col.violation('C02/%s/run-raised' % fam, '%s: run() %d raised %s: %s' % (label, ri + 1, type(e).__name__, str(e)[:200]), c); return
        col.transitions += 1
        allset = asys.concat(sets)
        X = asys.apply_chain_np(asys.frame_np(allset['samples'], frame), chain)
        Y = asys.intermediate(kind, allset['v'], asys.family_model(fam))
        N = len(allset['idx'])
        if a.processed_traces != N:
            col.violation('C02/%s/counter' % fam, '%s: processed_traces=%d after %d traces' % (label, a.processed_traces, N), c)
        res = np.asarray(a.results)
        try:
            one = asys.oneshot(fam, prec, X, Y, auto=c['auto'])
        except Exception as e:
            col.violation('C02/%s/oneshot-raised' % fam, '%s: the stand-alone distinguisher refused the whole set: %s %s' % (label, type(e).__name__, e), c); return
        if res.shape != one.shape:
            col.violation('C02/%s/shape' % fam, '%s: results shape %s, stand-alone one-batch shape %s' % (label, res.shape, one.shape), c); continue
        # sums (of squares, of products) stay exactly representable only while they fit the mantissa of the accumulation precision
        fits = float(np.abs(X.astype('float64')).max()) ** 2 * N * 4 < (2 ** 24 if prec == 'float32' and fam != 'mia' else 2 ** 53)
        if c['pool'] == 'exact' and fits:
            col.count('bit_identical_to_oneshot')
            if not np.array_equal(res, one, equal_nan=True):
                idx = tuple(int(t) for t in np.argwhere(~((res == one) | (np.isnan(res) & np.isnan(one))))[0])
                col.violation('C02/%s/differs-from-oneshot' % fam, '%s: results%s=%r after run %d, the stand-alone distinguisher fed all %d traces at once gives %r' % (label, list(idx), float(res[idx]), ri + 1, N, float(one[idx])), c)
        else:
            with np.errstate(all='ignore'):
                scale = np.nanmax(np.abs(one)) if np.isfinite(one).any() else 1.0
                bad = (np.isnan(res) != np.isnan(one)).any() or (np.isfinite(one).any() and np.nanmax(np.abs(res - one)) > tol * max(scale, 1.0))
            if bad:
                col.violation('C02/%s/differs-from-oneshot' % fam, '%s: results differ from the one-batch result beyond rounding' % label, c)
        if X.dtype.kind in 'iu' or c['pool'] != 'exact' or True:
            try:
                ref, de, amp = asys.definition(fam, X, Y)
            except Exception:
                ref = None
            if ref is not None and ref.shape == res.shape:
                nz = np.abs(ref[de]); floor = 1.0 if fam in ('cpa', 'nicv', 'mia') else (float(nz.max()) if nz.size and nz.max() > 0 else 1.0)
                cm = compare(res, ref, de, tol, floor)
                if amp is not None:
                    ill = de & (np.nan_to_num(amp, nan=np.inf) * float(np.finfo(prec).eps) > tol / 8)
                    col.count('ill_conditioned_not_compared', int(ill.sum()))
                    for kk in ('defined_bad', 'value_bad'): cm[kk] = cm[kk] & ~ill
                col.count('compared_with_definition')
                if c['pool'] != 'exact':
                    cm['undefined_bad'] = cm['undefined_bad'] & False        # NaN-for-undefined is stated for integer-valued inputs only
                for kk in ('undefined_bad', 'defined_bad', 'value_bad'):
                    if cm[kk].any():
                        idx = tuple(int(t) for t in np.argwhere(cm[kk])[0])
                        col.violation('C02/%s/%s' % (fam, kk), '%s: results%s=%r, definition on all %d traces gives %r' % (label, list(idx), float(res[idx]), N, float(ref[idx])), c)
                col.err('%s/%s' % (fam, prec), cm['max_err'])
        if kind == 'attack':
            exp_scores = asys.py_discriminant(c['disc'], res)
            if a.scores is None or np.asarray(a.scores).shape != exp_scores.shape or not np.array_equal(np.asarray(a.scores), exp_scores, equal_nan=True):
                col.violation('C02/%s/scores' % fam, '%s: scores != %s(results) after run %d' % (label, c['disc'], ri + 1), c)
    col.evaluations += 1; col.states += len(c['runs']) + 1
    if len(c['runs']) > 1 or any(n > bs for n, bs in c['runs'] if isinstance(bs, int)): col.nontrivial += 1
    col.outcomes.add((fam, kind, repr(c['runs']), c['frame'], c['chain'], c.get('step')))
    col.sample({'case': c}, limit=1)
