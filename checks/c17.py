"""C17 - on simulated leakage every attack ranks the true key first (E3 over configurations and per-word key values)."""
PROPERTY = 'C17'
LEVEL = 'model_checking'
ENGINE = 'E3'
RULE = ('structure-complete enumeration of attack class x selection function x batch-size relation x key: attack classes {CPA, DPA, ANOVA, NICV, SNR, MIA, TemplateDPAAttack} x every ready-made AES and '
        'DES first-/last-round selection function with a non-linear target (SubBytes / S-boxes / FeistelR / DeltaR; the AddRoundKey ones for CPA + HammingWeight only, the only distinguisher for which an xor target separates '
        'hypotheses) x container batch size {smaller than, dividing, equal to, larger than the set} x AES key sizes 128/192/256 x keys chosen so that every attacked word takes many true values (thorough: every one of the '
        '256 AES / 64 DES word values). Traces are simulated as model(intermediate under the TRUE round key taken from the FIPS reference key schedule) at one known sample per word plus bounded deterministic noise and '
        'run through the public Container -> selection function -> model -> distinguisher -> discriminant pipeline. A case = one (attack, selection function, key, batch size) run; an evaluation = one attacked word; '
        'non-trivial = the runner-up guess is within 50% of the winner')
ASSUMPTIONS = ['numpy/numba/estraces trusted', 'noise amplitude <= 1/8 of one model step, 512 (AES) / 1024 (DES) traces: the true key leads by a wide margin (measured and reported)',
               'the intermediate value under the true key is read from the selection function output at the guess equal to the REFERENCE round key (C07 ties that column to the real cipher state)',
               'AddRoundKey targets give tied scores by symmetry for every distinguisher except CPA/HammingWeight: those combinations are outside "sets large enough to separate hypotheses"']
TRUSTED = ['mc/refs/aes.py and mc/refs/des.py key schedules (self-tested)', 'LUT memo']
TECHNIQUE = 'structure-complete enumeration of attack class x selection function x batch size x key configurations through the real public pipeline on simulated leakage, oracle = strict argmax at the reference round key'
LEVEL_TEXT = ('Every attack class is run through the public pipeline with every ready-made AES/DES selection function it can separate, for three batch-size relations and several keys per key size; for every attacked word '
              'scores[:, w].argmax() must equal compute_expected_key(key)[w], which must itself be the FIPS reference round-key word, with a strict margin over the runner-up.')
LEVEL_NOTE = 'Trusted: numpy, numba, reference key schedules. Bound: 2 (quick) / 16 (thorough) keys per configuration, fixed plaintext pools covering every word value.'
DESIGN_REF = 'DESIGN.md section 3, C17'

AES_SF = [('FirstSubBytes', 'first', True), ('LastSubBytes', 'last', True), ('DeltaRLastRounds', 'last', True), ('FirstAddRoundKey', 'first', False), ('LastAddRoundKey', 'last', False)]
DES_SF = [('FirstSboxes', 'first', True), ('LastSboxes', 'last', True), ('FeistelRFirstRounds', 'first', True), ('FeistelRLastRounds', 'last', True), ('DeltaRFirstRounds', 'first', True),
          ('DeltaRLastRounds', 'last', True), ('FirstAddRoundKey', 'first', False), ('LastAddRoundKey', 'last', False)]
ATTACKS = ('cpa', 'dpa', 'anova', 'nicv', 'snr', 'mia', 'tpldpa')


def bound(tier):
    return {'keys_per_configuration': 2 if tier == 'quick' else 16, 'aes_traces': 512, 'des_traces': 1024, 'batch_sizes': 'N/4+1 (tail), N/2, N, 3N'}


def shards(tier, seed):
    out = []
    for cipher, sfs in (('aes', AES_SF), ('des', DES_SF)):
        for name, which, nonlinear in sfs:
            for att in ATTACKS:
                if not nonlinear and att != 'cpa': continue
                out.append({'name': '%s-%s-%s' % (cipher, name, att), 'cipher': cipher, 'sf': name, 'which': which, 'att': att,
                            'cost': (30 if cipher == 'des' else 12) * (2 if att in ('anova', 'nicv', 'snr', 'mia') else 1)})
    out.append({'name': 'aliases', 'cipher': 'alias', 'cost': 1})
    return out


def _keys(np, cipher, tier, seed, size=16):
    """Keys: the FIPS example key + seeded keys; thorough: 16 keys whose words run through every value (word w of key j = (16*j + w*? ) pattern)."""
    from mc.common import rng_for
    rng = rng_for(seed, 'c17-keys', cipher, size)
    n = 2 if tier == 'quick' else 16
    keys = []
    if cipher == 'aes':
        keys.append(np.array([0x2b, 0x7e, 0x15, 0x16, 0x28, 0xae, 0xd2, 0xa6, 0xab, 0xf7, 0x15, 0x88, 0x09, 0xcf, 0x4f, 0x3c] * 2, dtype='uint8')[:size])
        while len(keys) < n:
            j = len(keys)
            k = rng.randint(0, 256, size).astype('uint8')
            if tier == 'thorough':
                k[:16] = (16 * j + np.arange(16)) % 256          # over the 16 keys every byte value occurs as a first-round key word
            keys.append(k)
    else:
        keys.append(np.array([0x13, 0x34, 0x57, 0x79, 0x9B, 0xBC, 0xDF, 0xF1], dtype='uint8'))
        while len(keys) < n:
            keys.append(rng.randint(0, 256, 8).astype('uint8'))
    return keys


def run_shard(shard, ctx):
    import numpy as np
    from mc.common import Collector, install_lut_memo
    from mc.refs import aes as RA, des as RD
    col = Collector()
    RA.selftest(); RD.selftest(); install_lut_memo()
    if shard['cipher'] == 'alias':
        _aliases(col)
        return col.result()
    _attack(col, ctx, np, shard, shard.get('replay_case'))
    return col.result()


def _aliases(col):
    from scared import aes, des
    pairs = [('FirstAddRoundKey', 'LastAddRoundKey'), ('LastAddRoundKey', 'FirstAddRoundKey'), ('FirstSubBytes', 'LastSubBytes'), ('LastSubBytes', 'FirstSubBytes'), ('DeltaRFirstRounds', 'DeltaRLastRounds')]
    for d, e in pairs:
        col.evaluations += 1; col.states += 1; col.nontrivial += 1
        if getattr(aes.selection_functions.decrypt, d) is not getattr(aes.selection_functions.encrypt, e):
            col.violation('C17/alias/aes', 'aes decrypt.%s is not encrypt.%s' % (d, e), {'d': d, 'e': e})
    pairs = [('FirstAddRoundKey', 'LastAddRoundKey'), ('LastAddRoundKey', 'FirstAddRoundKey'), ('FirstSboxes', 'LastSboxes'), ('LastSboxes', 'FirstSboxes'), ('FeistelRFirstRounds', 'FeistelRLastRounds'),
             ('FeistelRLastRounds', 'FeistelRFirstRounds'), ('DeltaRFirstRounds', 'DeltaRLastRounds'), ('DeltaRLastRounds', 'DeltaRFirstRounds')]
    for d, e in pairs:
        col.evaluations += 1; col.states += 1; col.nontrivial += 1
        if getattr(des.selection_functions.decrypt, d) is not getattr(des.selection_functions.encrypt, e):
            col.violation('C17/alias/des', 'des decrypt.%s is not encrypt.%s' % (d, e), {'d': d, 'e': e})
    col.sample({'aliases': 'decrypt selection functions are the encrypt ones of the opposite end (checked by identity)'}, limit=1)


def _attack(col, ctx, np, shard, only):
    import scared
    from checks import asys
    from mc.common import rng_for
    from mc.refs import aes as RA, des as RD
    tier, seed = ctx['tier'], ctx['seed']
    cipher, sfname, which, att = shard['cipher'], shard['sf'], shard['which'], shard['att']
    mod = scared.aes if cipher == 'aes' else scared.des
    SF = getattr(mod.selection_functions.encrypt, sfname)
    nwords = 16 if cipher == 'aes' else 8
    nguess = 256 if cipher == 'aes' else 64
    N = 512 if cipher == 'aes' else 1024
    rng = rng_for(seed, 'c17-pool', cipher)
    if cipher == 'aes':
        data = np.stack([np.concatenate([rng.permutation(256), rng.permutation(256)]) for _ in range(16)], axis=1).astype('uint8')     # every byte value twice per word, words independent
    else:
        data = rng.randint(0, 256, (N, 8)).astype('uint8')
    tag = 'plaintext' if which == 'first' else 'ciphertext'
    model = {'cpa': 'hw', 'dpa': 'bit', 'anova': 'hw', 'nicv': 'hw', 'snr': 'hw', 'mia': 'hw', 'tpldpa': 'hw', 'tplstatic': 'hw'}[att]
    # (DES with the Value model is avoided on purpose: S-box 4 has the textbook symmetry S4(x ^ 101111) = relabelling of S4(x), so value-class
    #  partitions coincide for two guesses and no partition-based distinguisher can separate them; Hamming-weight classes do separate them)
    sizes = (16, 24, 32) if cipher == 'aes' else (8,)
    if tier == 'quick' and cipher == 'aes': sizes = (16, 32) if att in ('cpa', 'dpa') else (16,)
    for size in sizes:
        for ki, key in enumerate(_keys(np, cipher, tier, seed, size)):
            if cipher == 'aes':
                rk = RA.round_keys([int(b) for b in key]); true = np.array(rk[0] if which == 'first' else rk[-1])
            else:
                ks = RD.key_schedule([int(b) for b in key]); true = np.array(ks[0] if which == 'first' else ks[15])
            words = list(range(nwords))
            if ki == 1 and att in ('cpa', 'anova', 'dpa'):
                words = [0, 2, 1, 3, nwords - 1, nwords - 3, nwords - 2]          # a non-monotonic word selection (runs of consecutive indices out of order)
            if att == 'tpldpa': words = [0, nwords - 1] if tier == 'quick' else [0, 3, nwords - 1]
            elif att in ('anova', 'nicv', 'snr', 'mia') and tier == 'quick' and cipher == 'des': words = list(range(nwords))
            sf_all = SF()
            full = sf_all(**{tag: data})                                  # (N, guesses, words)
            inter = full[np.arange(N)[:, None], true[None, :], np.arange(nwords)[None, :]]       # intermediate value under the TRUE (reference) round key
            model_k = 'bit' if (att == 'mia' and ki % 2 == 1) else model          # a 1-bit model bounds the mutual information by ln 2 < 1 nat
            if att in ('anova', 'nicv', 'snr') and ki % 2 == 1: model_k = 'bit3'     # a higher bit of the target, classes left to the automatic class set
            mo = {'hw': scared.HammingWeight(), 'bit': scared.Monobit(0), 'bit3': scared.Monobit(3), 'value': scared.Value()}[model_k]
            leak = mo(inter).astype('float64')
            noise = np.round(rng_for(seed, 'c17-noise', cipher).uniform(-0.125, 0.125, (N, nwords + 2)), 4)     # bounded, seeded, independent per sample
            traces = np.concatenate([leak, np.zeros((N, 2))], axis=1) + noise
            ths = scared.traces.read_ths_from_ram(traces.astype('float32'), **{tag: data, 'key': np.tile(key, (N, 1))})
            try:
                ek = np.asarray(sf_all.compute_expected_key(key=key)).reshape(-1)
            except Exception as e:
                col.violation('C17/%s/%s/expected-key-raised' % (cipher, sfname), '%s %s key size %d: compute_expected_key raised %s %s' % (cipher, sfname, size, type(e).__name__, e), {'key': key.tolist()}); continue
            if ek.shape != true.shape or not np.array_equal(ek, true):
                col.violation('C17/%s/%s/expected-key-not-reference-round-key' % (cipher, sfname), '%s %s key size %d: compute_expected_key gives %s, the FIPS %s round key is %s' % (cipher, sfname, size, ek.tolist(), which, true.tolist()),
                              {'key': key.tolist(), 'sf': sfname})
            bss = [N // 4 + 1, N // 2, N, 3 * N]
            if tier == 'quick': bss = [N // 4 + 1, N] if ki == 0 else [N // 2, 3 * N]
            for bi_, bs in enumerate(bss):
                # every other configuration asks for intermediate results on the way (convergence step that does not divide the number of traces): the final ranking is the same attack
                cstep = (N // 3 + 1) if bi_ % 2 == 1 else None
                case = {'cipher': cipher, 'sf': sfname, 'attack': att, 'key': key.tolist(), 'batch_size': bs, 'model': model, 'convergence_step': cstep}
                label = '%s %s %s key=%s batch_size=%d convergence_step=%s' % (att, cipher, sfname, bytes(key.tolist()).hex(), bs, cstep)
                # the last configuration runs the attack on traces riding on a DC level that the Container removes with a preprocess (MIA then also derives its histogram window by itself)
                pre = bi_ == len(bss) - 1
                if pre:
                    case['container'] = 'traces + 120, preprocesses=[CenterOn(120)]'; label += ' [DC level removed by a Container preprocess]'
                    ths_off = scared.traces.read_ths_from_ram((traces + 120.0).astype('float32'), **{tag: data, 'key': np.tile(key, (N, 1))})
                try:
                    with asys.BatchSize(bs):
                        scores, wlist = _run_attack(np, scared, att, SF, mo, model, ths, words, cipher, nguess, tag, inter, traces, N, cstep, ths_off if pre else None)
                except Exception as e:
                    col.violation('C17/%s/%s/%s/raised' % (att, cipher, sfname), '%s: %s %s' % (label, type(e).__name__, str(e)[:200]), case); continue
                col.transitions += 1
                for j, w in enumerate(wlist):
                    sc = np.asarray(scores[j], dtype='float64')
                    col.evaluations += 1; col.states += 1
                    order = np.argsort(-np.nan_to_num(sc, nan=-np.inf))
                    best, second = int(order[0]), int(order[1])
                    margin = float(sc[best] - sc[second])
                    rel = margin / max(abs(float(sc[best])), 1e-12)
                    if rel < 0.5: col.nontrivial += 1
                    col.err('min_relative_margin/%s' % att, -rel)
                    if best != int(true[w]) or not np.isfinite(sc[best]):
                        col.violation('C17/%s/%s/%s/true-key-not-first' % (att, cipher, sfname), '%s: word %d: best guess %d (score %.4g), true round-key word %d has score %.4g (rank %d)'
                                      % (label, w, best, float(sc[best]), int(true[w]), float(sc[int(true[w])]), int(np.where(order == int(true[w]))[0][0]) + 1), dict(case, word=w))
                    elif best != int(ek.reshape(-1)[w]) if ek.shape == true.shape else False:
                        col.violation('C17/%s/%s/%s/argmax-not-expected-key' % (att, cipher, sfname), '%s: word %d: argmax %d but compute_expected_key gives %d' % (label, w, best, int(ek[w])), dict(case, word=w))
                    elif not (margin > 0):
                        col.violation('C17/%s/%s/%s/tie' % (att, cipher, sfname), '%s: word %d: the true key does not lead strictly (margin %.3g)' % (label, w, margin), dict(case, word=w))
                col.outcomes.add((att, cipher, sfname, size, ki, bs, cstep))
            col.sample({'attack': att, 'selection_function': '%s.%s' % (cipher, sfname), 'key': key.tolist(), 'true_round_key_words': true.tolist(), 'traces': int(N)}, limit=1)
    col.guard(col.evaluations > 0, 'vacuity: nothing attacked')


def _run_attack(np, scared, att, SF, mo, model, ths, words, cipher, nguess, tag, inter, traces, N, cstep=None, ths_off=None):
    """-> (scores per attacked word: list of arrays over guesses, list of words)"""
    cont = scared.Container(ths) if ths_off is None else scared.Container(ths_off, preprocesses=[scared.preprocesses.CenterOn(mean=np.full(traces.shape[1], 120.0), precision='float64')])
    if att in ('cpa', 'dpa', 'anova', 'nicv', 'snr', 'mia'):
        sf = SF(words=words) if len(words) != (16 if cipher == 'aes' else 8) else SF()
        ckw = {} if cstep is None else {'convergence_step': cstep}
        if att == 'cpa': a = scared.CPAAttack(selection_function=sf, model=mo, discriminant=scared.nanmax, **ckw)     # signed: HW(x ^ g) and HW(x ^ ~g) are exactly anti-correlated
        elif att == 'dpa': a = scared.DPAAttack(selection_function=sf, model=mo, discriminant=scared.maxabs, **ckw)
        else:
            parts = list(range(9)) if cipher == 'aes' else list(range(5))
            if isinstance(mo, scared.Monobit): parts = [0, 1] if att == 'mia' else None
            C = {'anova': scared.ANOVAAttack, 'nicv': scared.NICVAttack, 'snr': scared.SNRAttack, 'mia': scared.MIAAttack}[att]
            # ANOVA / NICV / SNR are non-negative statistics: maxabs ranks exactly like nanmax, every other configuration uses it
            disc = scared.nanmax
            if att in ('anova', 'nicv', 'snr'):
                disc = (scared.nanmax, scared.maxabs)[_run_attack.n % 2] if cstep is None else scared.maxabs
            kw = dict(selection_function=sf, model=mo, discriminant=disc, partitions=parts, **ckw)
            if att in ('anova', 'nicv', 'snr'): _run_attack.n += 1
            if att == 'mia':
                hi = float(max(parts)) + 0.5
                kw['bin_edges'] = np.linspace(-0.5, hi, int(hi + 0.5) + 1)
                if ths_off is not None:
                    del kw['bin_edges']; kw['bins_number'] = 4 * (int(hi + 0.5))          # automatic window (range of the first batch of PREPROCESSED samples), bins of a quarter of a level
                if N % 3 != 0 or True:
                    kw['precision'] = ('uint32', 'float32')[_run_attack.n % 2]; _run_attack.n += 1     # MIA counts in an integer dtype by default: both kinds of precision
            a = C(**kw)
        a.run(cont)
        sc = np.asarray(a.scores)                                          # (guesses, words)
        return [sc[:, j] for j in range(sc.shape[1])], list(words)
    # template-DPA: profile on the same simulated device with the known key (the reverse selection function returns the intermediate value of
    # word w under the known key), then match with the ready-made attack selection function restricted to that word
    out = []
    parts = list(range(9)) if cipher == 'aes' else list(range(5))
    for w in words:
        known = scared.reverse_selection_function(_known(tag, w, ths, inter))
        t = scared.TemplateDPAAttack(container_building=cont, reverse_selection_function=known, selection_function=SF(words=w), model=mo, partitions=parts)
        t.build(); t.run(cont)
        out.append(np.asarray(t.scores).reshape(-1))
    return out, list(words)


_run_attack.n = 0


def _known(tag, w, ths, inter):
    """Reverse selection function for profiling: intermediate value of word w under the known key, looked up from the full data word of the row."""
    import numpy as np
    data = np.asarray(ths.metadatas[tag])
    table = {bytes(data[i].tolist()): int(inter[i, w]) for i in range(len(data))}

    def lookup(d):
        return np.array([[table[bytes(row.tolist())]] for row in d], dtype='uint8')
    if tag == 'plaintext':
        def f(plaintext):
            return lookup(plaintext)
    else:
        def f(ciphertext):
            return lookup(ciphertext)
    return f
