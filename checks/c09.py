"""C09 - the t-test equals the Welch statistic whatever the batching and the interleaving of its two accumulator threads;
a failure in one thread is re-raised to the caller (E3 for values, E2 for schedules)."""
PROPERTY = 'C09'
LEVEL = 'model_checking'
ENGINE = 'E2'
RULE = ('(values, exhaustive) every (n1, n2) in 1..7^2 x every integer batch size 1..8 x trace dtypes x precisions, frames and a row-wise preprocess, run histories of length 1..2, executed on the real TTestAnalysis with free '
        'threads and compared with the exact Welch statistic; (schedules, exhaustive within the bound) ALL interleavings with <= 2 preemptions of the three real threads of TTestAnalysis.run (caller + two accumulators) '
        'on a 2+2-batch harness, scheduling points = every line of scared/ttest.py and every function entry of scared/container.py (quick) / every line of both files (thorough), plus <= 3 preemptions on a 1+1-batch '
        'harness and <= 1 on a two-run history (thorough); failure hand-over: a harness preprocess raises on the k-th batch of set i, for every (i, k), all interleavings with <= 2 (quick: <= 1 for k > 0) preemptions. '
        'A case = one complete schedule (or one value configuration); a state = one scheduling point; non-trivial = a schedule with at least one preemption')
ASSUMPTIONS = ['numpy/numba/estraces trusted', 'the scheduler serialises Python-level steps; the two GIL-free numba kernels never overlap under it (they write disjoint arrays - checked - and a free-running smoke pass over numba '
               'thread counts 1/2/16 looks for run-to-run differences; that pass is sampling and is labelled so)', 'CPython 3.12 thread-state lock semantics (a finished thread has released its _tstate_lock)',
               'exact integer pools: results must be bit-identical to the sequential result']
TRUSTED = ['mc/sched.py (cooperative settrace scheduler: deterministic thread birth, cooperative join, deterministic thread exit)', 'mc/refs/frac.py welch', 'replay of every non-ok schedule twice before it is reported']
TECHNIQUE = 'stateless preemption-bounded exploration (iterative context bounding) of all interleavings of the real accumulator threads under a settrace cooperative scheduler, plus exhaustive enumeration of (n1, n2, batch size) for the values'
LEVEL_TEXT = ('Every schedule with at most 2 preemptions of the caller and the two real accumulator threads (scheduling point = every line of ttest.py, function entries of container.py) is executed; each must give the '
              'sequential result bit for bit, correct per-set counters, no deadlock and finished threads; with a failure injected in any batch of either set every schedule within the bound must make run() raise that very '
              'exception object and leave no new result. Values: every (n1, n2, batch size) up to 7x7x8 against the exact Welch statistic.')
LEVEL_NOTE = 'Trusted: the scheduler, numpy/numba. Not owned: overlap of the two nogil kernels and OpenMP scheduling (disjointness invariant + free-running smoke pass).'
DESIGN_REF = 'DESIGN.md section 3, C09'


def bound(tier):
    return {'preemptions': 2, 'harness_batches': '2+2' if tier == 'quick' else '2+2, 3+2 (bound 2), 1+1 (bound 3), two runs (bound 1)',
            'granularity': 'ttest.py lines + container.py calls' if tier == 'quick' else 'all lines of both files for ok-2+2, fail-0-0, fail-1-1 and the two-run / bound-1 harnesses; ttest.py lines + container.py calls for the others'}


K = 16      # shards per bound-2 exploration (second-level deviations are dealt out by position, see mc/sched.explore)


def shards(tier, seed):
    out = [{'name': 'values-%d' % i, 'kind': 'values', 'part': i, 'parts': 4, 'cost': 3} for i in range(4)]
    fine = tier == 'thorough'          # thorough: every line of container.py is a scheduling point too (462 points instead of 225 on the 2+2 harness)
    expl = [('ok-2+2', {'sizes': [4, 3], 'bs': 2, 'inj': None, 'bound': 2, 'runs': 1, 'fine': fine})]
    for i in (0, 1):
        for k in (0, 1):
            b = 2 if (tier == 'thorough' or k == 0) else 1
            expl.append(('fail-%d-%d' % (i, k), {'sizes': [4, 3], 'bs': 2, 'inj': [i, k], 'bound': b, 'runs': 1, 'fine': fine and i == k}))
    if tier == 'thorough':
        expl.append(('ok-3+2', {'sizes': [5, 4], 'bs': 2, 'inj': None, 'bound': 2, 'runs': 1, 'fine': False}))
        expl.append(('ok-1+1-b3', {'sizes': [2, 2], 'bs': 2, 'inj': None, 'bound': 3, 'runs': 1, 'fine': False}))
        expl.append(('ok-2runs', {'sizes': [4, 3], 'bs': 2, 'inj': None, 'bound': 1, 'runs': 2, 'fine': True}))
        expl.append(('fail-run2', {'sizes': [4, 3], 'bs': 2, 'inj': [0, 1], 'bound': 1, 'runs': 2, 'fine': True}))
        expl.append(('fail-0-2', {'sizes': [5, 4], 'bs': 2, 'inj': [0, 2], 'bound': 1, 'runs': 1, 'fine': True}))
    else:
        expl.append(('ok-2runs', {'sizes': [2, 2], 'bs': 2, 'inj': None, 'bound': 1, 'runs': 2, 'fine': False}))
    for name, h in expl:
        k = K if h['bound'] >= 2 else 5
        for j in range(k):
            out.append({'name': 'sched-%s-%d' % (name, j), 'kind': 'sched', 'h': dict(h), 'first': [k, j], 'cost': (10 if h['bound'] >= 2 else 3) * (4 if h['fine'] else 1)})
    out.append({'name': 'freerun', 'kind': 'freerun', 'cost': 2})
    return out


def run_shard(shard, ctx):
    from mc.common import Collector
    col = Collector()
    if shard.get('replay_case') is not None:
        _replay(col, ctx, shard['replay_case'])
    elif shard['kind'] == 'values':
        _values(col, ctx, shard)
    elif shard['kind'] == 'sched':
        _sched(col, ctx, shard['h'], tuple(shard['first']))
    else:
        _freerun(col, ctx)
    return col.result()


# ------------------------------------------------------------------------------------------------------------------ values
def _values(col, ctx, shard):
    from checks.c02 import FRAMES
    import numpy as np
    import scared
    from checks import asys
    from mc.common import rng_for, TOL, compare
    from mc.refs import frac
    frac.selftest()
    seed = ctx['seed']; tier = ctx['tier']
    pp = asys.preprocesses()
    cases = []
    for n1 in range(1, 8):
        for n2 in range(1, 8):
            for bs in range(1, 9):
                cases.append((n1, n2, bs))
    k = 0
    for (n1, n2, bs) in cases[shard['part']::shard['parts']]:
        k += 1
        tdts = ['uint8', 'int16', 'float32', 'float64']
        tdt = tdts[k % 4]; prec = ('float32', 'float64')[(k // 4) % 2]
        variants = [(tdt, prec, None, [], 4)]
        if (n1 + n2 + bs) % 3 == 0: variants.append((tdts[(k + 1) % 4], ('float32', 'float64')[k % 2], slice(1, 4), ['affine'], 4))
        if (n1 + n2 + bs) % 5 == 0: variants.append(('uint8', 'float64', [0, 2, 2, 3], ['drop_first', 'cube_minus'], 4))
        # every way of writing a frame (the 17 spellings of C02: slices with open / negative / reversed bounds, ranges, lists, arrays, Ellipsis) reaches both accumulators
        fname, fr = FRAMES[(n1 * 56 + n2 * 8 + bs) % len(FRAMES)]
        if isinstance(fr, str): fr = np.array([int(x) for x in fr[3:].split(',')])
        if fr is not None: variants.append((tdts[(k + 2) % 4], prec, fr, [], 6))
        for tdt, prec, frame, chain, width in variants:
            rng = rng_for(seed, 'c09v', n1, n2)
            # values whose squares do not fit the integer storage type (a square computed before promotion would wrap)
            hi = 200 if tdt == 'uint8' else 300
            A = rng.randint(0, hi, (n1 + 3, width)); B = rng.randint(0, hi, (n2 + 2, width))
            if np.dtype(tdt).kind == 'i': A = A - hi // 2; B = B - hi // 3
            A = A.astype(tdt); B = B.astype(tdt)
            case = {'n1': n1, 'n2': n2, 'batch_size': bs, 'tdtype': tdt, 'precision': prec, 'frame': repr(frame), 'chain': chain}
            label = 'n1=%d n2=%d bs=%d %s/%s frame=%r chain=%s' % (n1, n2, bs, tdt, prec, frame, chain)
            a = scared.TTestAnalysis(precision=prec)
            runs = [(A[:n1], B[:n2])] + ([(A[n1:], B[n2:])] if (n1 * n2 + bs) % 2 else [])
            seenA = np.zeros((0, width), tdt); seenB = np.zeros((0, width), tdt)
            for ri, (a_, b_) in enumerate(runs):
                kw = {'preprocesses': [pp[c] for c in chain]}
                if frame is not None: kw['frame'] = frame
                try:
                    with asys.BatchSize(bs):
                        a.run(scared.TTestContainer(scared.traces.read_ths_from_ram(a_), scared.traces.read_ths_from_ram(b_), **kw))
                except Exception as e:
                    col.violation('C09/values/raised', '%s: run %d raised %s: %s' % (label, ri + 1, type(e).__name__, e), case); break
                col.transitions += 1
                seenA = np.concatenate([seenA, a_]); seenB = np.concatenate([seenB, b_])
                XA = asys.apply_chain_np(asys.frame_np(seenA, frame), chain); XB = asys.apply_chain_np(asys.frame_np(seenB, frame), chain)
                ref, de = frac.welch(XA, XB)
                tol = TOL[prec]
                got = np.asarray(a.result, dtype='float64')
                nz = np.abs(ref[de]); floor = float(nz.max()) if nz.size and nz.max() > 0 else 1.0
                cm = compare(got, ref, de, tol, floor)
                col.evaluations += 1; col.states += got.size; col.nontrivial += int(de.any())
                if 'shape' in cm:
                    col.violation('C09/values/shape', '%s: result shape %s expected %s' % (label, got.shape, ref.shape), case); break
                # entries whose two variances are exactly zero are undefined (0/0 or x/0): must not be finite
                und = ~de & np.isfinite(got)
                if und.any():
                    col.violation('C09/values/undefined-finite', '%s: result[%d]=%r where both variances are zero' % (label, int(np.argwhere(und)[0][0]), float(got[und][0])), case)
                # cancellation guard: variance by subtraction
                mA, vA = frac.mean_var(XA); ampA = frac.AMP['var'].copy(); mB, vB = frac.mean_var(XB); ampB = frac.AMP['var'].copy()
                ill = de & (np.minimum(np.nan_to_num(ampA, posinf=1e300), np.nan_to_num(ampB, posinf=1e300)) * float(np.finfo(prec).eps) > tol / 8)
                for kind in ('defined_bad', 'value_bad'):
                    bad = cm[kind] & ~ill
                    if bad.any():
                        s = int(np.argwhere(bad)[0][0])
                        col.violation('C09/values/%s' % kind, '%s: after run %d result[%d]=%r, Welch statistic of all traces = %r (set1 column %s, set2 column %s)' % (label, ri + 1, s, float(got[s]), float(ref[s]), XA[:, s].tolist(), XB[:, s].tolist()), case)
                col.err('welch/' + prec, cm['max_err'])
                for i, (XX, n) in enumerate(((XA, len(seenA)), (XB, len(seenB)))):
                    acc = a.accumulators[i]
                    m, v = frac.mean_var(XX)
                    if acc.processed_traces != n:
                        col.violation('C09/values/counter', '%s: accumulators[%d].processed_traces=%d after %d traces' % (label, i, acc.processed_traces, n), case)
                    if not np.allclose(acc.mean, m, rtol=64 * tol, atol=64 * tol * max(1.0, float(np.abs(m).max()))):
                        col.violation('C09/values/mean', '%s: accumulators[%d].mean=%s, expected %s' % (label, i, np.asarray(acc.mean).tolist(), m.tolist()), case)
                    if not np.allclose(acc.var, v, rtol=0, atol=256 * tol * max(1.0, float((np.asarray(XX, dtype="float64") ** 2).max()))):
                        col.violation('C09/values/var', '%s: accumulators[%d].var=%s, expected population variance %s' % (label, i, np.asarray(acc.var).tolist(), v.tolist()), case)
            col.outcomes.add((n1, n2, bs))
            col.sample({'case': case}, limit=1)
    if shard['part'] == 0:
        _failed_run_history(col, ctx, np, scared, asys)


def _failed_run_history(col, ctx, np, scared, asys):
    """Histories run OK -> run FAILING in set i (batch k) -> run OK on one analysis object (free threads): the failure must be re-raised, and the
    run after it must again use every trace of both sets (per-set counters grow by exactly the set sizes) and leave a result."""
    from mc.common import rng_for
    rng = rng_for(ctx['seed'], 'c09-failhist')
    armed = {'set': None, 'batch': None, 'seen': 0, 'exc': None}

    @scared.preprocess
    def pp(traces):
        marker = 1 if traces[0, 0] >= 100 else 0
        if armed['set'] == marker:
            armed['seen'] += 1
            if armed['seen'] - 1 == armed['batch']:
                armed['exc'] = ValueError('injected failure'); raise armed['exc']
        return traces
    for (i, k) in ((0, 0), (0, 1), (1, 0), (1, 1), (1, 2)):
        for bs in (2, 3):
            a = scared.TTestAnalysis(precision='float64')
            sets = []
            for r in range(3):
                A = rng.randint(0, 50, (6, 3)).astype('uint8'); B = rng.randint(0, 50, (5, 3)).astype('uint8'); B[:, 0] += 100
                sets.append((A, B))
            case = {'history': 'ok, failing(set %d, batch %d), ok' % (i, k), 'batch_size': bs}
            label = 'history ok / failure in batch %d of set %d / ok, batch size %d' % (k, i, bs)
            col.evaluations += 1; col.states += 3; col.transitions += 3; col.nontrivial += 1
            try:
                with asys.BatchSize(bs):
                    armed.update(set=None, seen=0, exc=None)
                    a.run(scared.TTestContainer(scared.traces.read_ths_from_ram(sets[0][0]), scared.traces.read_ths_from_ram(sets[0][1]), preprocesses=[pp]))
                    armed.update(set=i, batch=k, seen=0, exc=None)
                    raised = None
                    try:
                        a.run(scared.TTestContainer(scared.traces.read_ths_from_ram(sets[1][0]), scared.traces.read_ths_from_ram(sets[1][1]), preprocesses=[pp]))
                    except BaseException as e:      # noqa - the observation
                        raised = e
                    if raised is None or raised is not armed['exc']:
                        col.violation('C09/failure-history/not-reraised', '%s: the failing run raised %r, injected %r' % (label, raised, armed['exc']), case); continue
                    armed.update(set=None, seen=0, exc=None)
                    # the sibling of the failed thread is stopped cooperatively and may still be finishing its current batch after run() has
                    # raised (what it adds is unspecified): wait until the counters are quiescent before taking the reference point
                    import time
                    before = None
                    for _ in range(200):
                        cur = [acc.processed_traces for acc in a.accumulators]
                        if cur == before: break
                        before = cur; time.sleep(0.05)
                    a.run(scared.TTestContainer(scared.traces.read_ths_from_ram(sets[2][0]), scared.traces.read_ths_from_ram(sets[2][1]), preprocesses=[pp]))
                    after = [acc.processed_traces for acc in a.accumulators]
            except Exception as e:
                col.violation('C09/failure-history/raised', '%s: %s %s' % (label, type(e).__name__, e), case); continue
            if [x - y for x, y in zip(after, before)] != [6, 5]:
                col.violation('C09/failure-history/run-after-failure-skips-traces', '%s: the run after the failed one processed %s traces of the two sets instead of [6, 5]' % (label, [x - y for x, y in zip(after, before)]), case)


# ------------------------------------------------------------------------------------------------------------------ schedules
class Harness:
    def __init__(self, h, seed):
        import numpy as np
        import threading
        import numba
        import scared
        import scared.ttest as tt
        import scared.container as ct
        from mc.common import rng_for
        from mc.refs import frac
        self.np, self.scared, self.tt, self.ct, self.threading = np, scared, tt, ct, threading
        numba.set_num_threads(1)
        self.h = h
        rng = rng_for(seed, 'c09s', tuple(h['sizes']))
        n1, n2 = h['sizes']
        self.sets = []
        for r in range(h['runs']):
            self.sets.append((rng.randint(0, 9, (n1, 3)).astype('uint8'), rng.randint(0, 9, (n2, 3)).astype('uint8')))
        self.inj = h['inj']
        self.cnt = {}
        self.injected = None
        harness = self

        @scared.preprocess
        def pp(traces):
            t = threading.current_thread()
            n = getattr(t, '_verif_name', None)
            if n is not None:
                idx = int(n[1:])
                harness.cnt[idx] = harness.cnt.get(idx, 0) + 1
                if harness.inj is not None:
                    want_thread = 2 * (harness.h['runs'] - 1) + harness.inj[0]          # the failure is injected in the LAST run
                    if idx == want_thread and harness.cnt[idx] - 1 == harness.inj[1]:
                        harness.injected = ValueError('injected failure in batch %d of set %d' % (harness.inj[1], harness.inj[0]))
                        raise harness.injected
            return traces
        self.pp = pp
        # sequential references (free threads, no scheduler, no injection)
        save = self.inj; self.inj = None
        scared.set_batch_size(h['bs'])
        a = scared.TTestAnalysis(precision='float64')
        self.seq = []
        for A, B in self.sets:
            a.run(self.container(A, B)); self.seq.append(a.result.copy())
        self.inj = save
        XA = np.concatenate([s[0] for s in self.sets]); XB = np.concatenate([s[1] for s in self.sets])
        ref, de = frac.welch(XA, XB)
        # (the oracle of the schedules is the free-running sequential result; that one must itself be the Welch statistic - reported by _sched as a violation, not as a harness failure)
        self.seq_is_welch = bool(np.allclose(self.seq[-1][de], ref[de], rtol=1e-9))
        self.seq_msg = 'free-running result %s, Welch statistic of all traces %s' % (self.seq[-1].tolist(), ref.tolist())
        self.line_files = {tt.__file__} | ({ct.__file__} if h.get('fine') else set())
        self.call_files = set() if h.get('fine') else {ct.__file__}

    def container(self, A, B):
        s = self.scared
        return s.TTestContainer(s.traces.read_ths_from_ram(A), s.traces.read_ths_from_ram(B), preprocesses=[self.pp])

    def body(self, ex):
        self.cnt.clear(); self.injected = None
        s = self.scared
        a = s.TTestAnalysis(precision='float64')
        ex.result['a'] = a; ex.result['done_runs'] = 0
        try:
            for A, B in self.sets:
                a.run(self.container(A, B))
                ex.result['done_runs'] += 1
            ex.result['r'] = a.result.copy()
        except BaseException as e:         # noqa - this IS the observation
            ex.result['exc'] = e

    def make(self, choices):
        from mc import sched
        return sched.Execution(choices, line_files=self.line_files, call_files=self.call_files)

    def outcome(self, ex):
        """-> (key, fingerprint or None, message)"""
        np = self.np
        r = ex.result
        if ex.error:
            return ('error', 'C09/schedule/deadlock-or-harness', ex.error)
        a = r.get('a')
        alive = [n for n, t in ex.threads.items() if ex.state.get(n) != 'done']
        if alive:
            return ('threads-left', 'C09/schedule/threads-not-finished', 'threads %s did not finish' % alive)
        if self.inj is None:
            if 'exc' in r:
                return ('raised', 'C09/schedule/raised', 'run() raised %r without any failure' % (r['exc'],))
            if not np.array_equal(r['r'], self.seq[-1], equal_nan=True):
                return ('differs', 'C09/schedule/result-differs', 'result %s differs from the sequential result %s' % (r['r'].tolist(), self.seq[-1].tolist()))
            pts = [acc.processed_traces for acc in a.accumulators]
            exp = [sum(len(s[0]) for s in self.sets), sum(len(s[1]) for s in self.sets)]
            if pts != exp:
                return ('counters', 'C09/schedule/counters', 'processed_traces %s expected %s' % (pts, exp))
            arrs = [a.accumulators[0].sum, a.accumulators[0].sum_squared, a.accumulators[1].sum, a.accumulators[1].sum_squared]
            for i in range(4):
                for j in range(i + 1, 4):
                    if np.shares_memory(arrs[i], arrs[j]):
                        return ('shared', 'C09/schedule/shared-accumulator-memory', 'accumulator arrays %d and %d share memory' % (i, j))
            return ('ok', None, '')
        # failure hand-over
        if 'exc' not in r:
            return ('returned', 'C09/failure/returned-a-result', 'run() returned although batch %d of set %d failed (result %s)' % (self.inj[1], self.inj[0], r.get('r')))
        if self.injected is None:
            return ('not-injected', 'C09/failure/raised-before-injection', 'run() raised %r before the injected failure happened' % (r['exc'],))
        if r['exc'] is not self.injected:
            return ('other:%s' % type(r['exc']).__name__, 'C09/failure/other-exception/%s' % type(r['exc']).__name__,
                    'run() raised %r instead of the failure of the accumulator thread %r' % (r['exc'], self.injected))
        if self.h['runs'] == 1 and hasattr(a, 'result'):
            return ('partial-result', 'C09/failure/result-left', 'a result attribute was left after the failed run')
        if self.h['runs'] == 2 and not np.array_equal(a.result, self.seq[0], equal_nan=True):
            return ('partial-result', 'C09/failure/result-changed', 'the result of the first run was replaced after the failed second run')
        return ('raised-injected', None, '')


def _sched(col, ctx, h, first):
    from mc import sched
    H = Harness(h, ctx['seed'])
    if not H.seq_is_welch:
        col.evaluations += 1
        col.violation('C09/sched/free-running-result-not-welch', 'harness sizes=%s batch_size=%d: %s' % (h['sizes'], h['bs'], H.seq_msg), {'harness': h})
        return
    seen_pre = {'n': 0}
    label = 'harness sizes=%s batch_size=%d runs=%d injected=%s' % (h['sizes'], h['bs'], h['runs'], h['inj'])

    def check(ex, choices):
        key, fp, msg = H.outcome(ex)
        col.states += len(ex.log); col.transitions += len(ex.log)
        if sched.preemptions(ex.log) > 0: col.nontrivial += 1
        if fp is not None:
            # replay the same schedule twice: it must fail identically before it is reported
            for _ in range(2):
                ex2 = H.make(choices)
                try: ex2.run(H.body)
                except sched.Deadlock: pass
                k2, fp2, _ = H.outcome(ex2)
                if k2 != key:
                    raise sched.NonDeterminism('schedule %r gave %s then %s' % (choices, key, k2))
            col.violation(fp, '%s: %s [schedule with %d preemptions, %d points]' % (label, msg, sched.preemptions(ex.log), len(ex.log)),
                          {'harness': h, 'schedule': list(choices), 'enabled_at_deviations': [list(en) for en, c, _ in ex.log if c]},
                          unit_test='# replay: ./check C09 --replay <this file>  (re-executes exactly this schedule under mc/sched.py)')
        return key
    st = sched.explore(H.make, H.body, h['bound'], check, first_level=first)
    col.evaluations += st['executions']; col.validated += st['executions']
    col.outcomes.update((h['runs'], repr(h['inj']), k) for k in st['outcomes'])
    for p, n in st['by_preemptions'].items(): col.count('schedules_with_%d_preemptions' % p, n)
    col.count('max_points', 0); col.counters['max_points'] = max(col.counters.get('max_points', 0), st['max_points'])
    for k, n in st['outcomes'].items(): col.count('outcome/' + str(k), n)
    col.sample({'harness': h, 'first_level_shard': list(first), 'executions': st['executions'], 'scheduling_points': st['max_points'], 'outcomes': {str(k): v for k, v in st['outcomes'].items()}}, limit=1)
    if st['capped']:
        col.caps_hit.append('max_executions'); col.exhaustive = False


def _replay(col, ctx, case):
    from mc import sched
    H = Harness(case['harness'], ctx['seed'])
    ex = H.make(case['schedule'])
    try: ex.run(H.body)
    except sched.Deadlock: pass
    key, fp, msg = H.outcome(ex)
    col.evaluations += 1; col.states += len(ex.log); col.transitions += len(ex.log)
    if fp is not None:
        col.violation(fp, 'replayed schedule: ' + msg, case)


def _freerun(col, ctx):
    """Free-running smoke pass (sampling, labelled so): same harness bodies without the scheduler, numba thread counts 1/2/16, repeated.
    Runs in a child process of its own so that only this pass gets a 16-thread numba pool (the scheduled shards run with one)."""
    import json, os, subprocess, sys
    env = dict(os.environ, NUMBA_NUM_THREADS='16'); env.pop('OMP_NUM_THREADS', None)
    p = subprocess.run([sys.executable, '-c', 'from checks.c09 import _freerun_child; _freerun_child(%d)' % ctx['seed']], env=env, stdout=subprocess.PIPE, stderr=subprocess.PIPE, text=True, timeout=600)
    line = [l for l in p.stdout.splitlines() if l.startswith('FREERUN ')]
    if p.returncode != 0 or not line:
        col.guard(False, 'free-running pass failed to run: %s' % p.stderr[-400:]); return
    res = json.loads(line[-1][8:])
    col.evaluations += res['runs']; col.states += res['runs']; col.transitions += res['runs']; col.nontrivial += 2
    col.count('freerun_smoke_runs', res['runs'])
    for nt, what in res['bad']:
        col.violation('C09/freerun/result-differs', 'free-running run with %d numba threads: %s' % (nt, what), {'numba_threads': nt})


def _freerun_child(seed):
    import json, warnings
    warnings.simplefilter('ignore')
    import numpy as np
    import numba
    np.seterr(all='ignore')
    h = {'sizes': [4, 3], 'bs': 2, 'inj': None, 'bound': 0, 'runs': 2}
    H = Harness(h, seed)

    class Dummy:
        def __init__(self): self.result = {}
    bad = []; runs = 0
    for nt in (1, 2, 16):
        numba.set_num_threads(min(nt, numba.config.NUMBA_NUM_THREADS))
        for rep in range(20):
            d = Dummy(); H.body(d); runs += 1
            if 'exc' in d.result or not np.array_equal(d.result['r'], H.seq[-1], equal_nan=True):
                bad.append((nt, repr(d.result.get('exc', d.result.get('r')))))
    print('FREERUN ' + json.dumps({'runs': runs, 'bad': bad}))


def finalize(shards_, results, tier, seed):
    c = {}
    for r in results:
        for k, v in r.get('counters', {}).items():
            c[k] = max(c.get(k, 0), v) if k == 'max_points' else c.get(k, 0) + v
    g = []
    if not c.get('schedules_with_2_preemptions'): g.append('vacuity: no schedule with 2 preemptions')
    if not c.get('outcome/raised-injected'): g.append('vacuity: failure hand-over never exercised')
    return {'guard_failures': g, 'schedules_by_preemptions': {k: v for k, v in c.items() if k.startswith('schedules_with')}, 'scheduling_points_per_execution': c.get('max_points')}
