"""Analysis-level harness shared by C02 (run == one-shot), C08 (convergence traces) and C17: builds RAM trace sets whose
rows carry their own index, analysis objects of every family, the stand-alone one-shot oracle, and a recording
distinguisher (public extension point) that exposes exactly what the pipeline feeds a distinguisher.
Imported inside worker processes only."""
import numpy as np

from mc.common import rng_for, install_lut_memo
from mc.refs import frac

FAMILIES = ('cpa', 'dpa', 'anova', 'nicv', 'snr', 'mia')
CLASSES = [0, 1, 2, 3]
EDGES = [0, 4, 8, 12, 16]
GUESSES = 4
DISCRIMINANTS = ('nanmax', 'maxabs', 'opposite_min', 'nansum', 'abssum')


def sc():
    import scared
    return scared


class BatchSize:
    """Container._BATCH_SIZE is process-wide state: every execution sets it and restores it."""

    def __init__(self, value):
        self.value = value

    def __enter__(self):
        s = sc()
        self.old = s.Container._BATCH_SIZE
        s.set_batch_size(self.value)

    def __exit__(self, *a):
        sc().Container._BATCH_SIZE = self.old


def make_set(n, S, W, seed, salt=0, first=0, tdt='uint8', kind='exact', wide=False):
    """-> dict(samples (n,S), v (n,W) uint8 in 0..3, idx (n,)) ; sample 0 and idx carry the global row index (first + i)."""
    rng = rng_for(seed, 'aset', n, S, W, salt, kind)
    if kind == 'float':
        X = rng.randint(0, 16, (n, S)) + np.round(rng.uniform(-0.45, 0.45, (n, S)), 3)
    elif kind == 'dyadic':
        X = rng.randint(-16, 16, (n, S)) / 8.0
    else:
        X = rng.randint(0, 16, (n, S))
    X = X.astype(tdt)
    v = rng.randint(0, 4, (n, W)).astype('uint8')
    if n:
        v[0, :] = 3                                    # the first row carries the largest class value (automatic class sets freeze on the first batch)
    idx = (np.arange(n) + first).astype('uint32')
    if wide:
        # 16-bit intermediate values that GROW with the global row index: below 256 in the first rows, above later on
        v = (v.astype('uint16') + 70 * (np.arange(n)[:, None] + first)).astype('uint16')
    return {'samples': X, 'v': v, 'idx': idx}


def ths_of(d):
    return sc().traces.read_ths_from_ram(d['samples'], v=d['v'], idx=d['idx'])


def concat(sets):
    return {k: np.concatenate([s[k] for s in sets], axis=0) for k in sets[0]}


# ---------------------------------------------------------------------------------------------------------
# selection functions / models (built once per process)
_SF = {}


def selection(kind, words=None, fresh=False):
    """fresh=True: a new selection-function object (scared's SelectionFunction remembers the keyword arguments of its previous call, so an
    object shared between executions would leak state from one explored history into the next)."""
    key = (kind, repr(words))
    if fresh:
        _SF.pop(key, None)
    if key not in _SF:
        s = sc()
        if kind == 'attack':
            @s.attack_selection_function(guesses=np.arange(GUESSES, dtype='uint8'), words=words)
            def asf(v, guesses):
                return ((v[:, None, :].astype('uint16') + guesses[None, :, None]) % 4).astype('uint8')
            _SF[key] = asf
        else:
            @s.reverse_selection_function(words=words)
            def rsf(v):
                return v
            _SF[key] = rsf
    return _SF[key]


def intermediate(kind, meta_v, model, words=None):
    """model(selection_function(metadata)) evaluated on a whole metadata array, by the harness (pure numpy)."""
    v = np.asarray(meta_v)
    if kind == 'attack':
        g = np.arange(GUESSES, dtype='uint8')
        out = ((v[:, None, :].astype('uint16') + g[None, :, None]) % 4).astype('uint8')
    else:
        out = v
    if words is not None:
        out = out.swapaxes(0, -1)[words].swapaxes(0, -1)
    if model == 'value':
        return out
    if model == 'hw':
        return np.array([bin(int(x)).count('1') for x in out.reshape(-1)], dtype='uint32').reshape(out.shape)
    if model == 'bit0':
        return (out & 1).astype('uint8')
    raise ValueError(model)


def model_obj(name):
    s = sc()
    return {'value': s.Value(), 'hw': s.HammingWeight(), 'bit0': s.Monobit(0)}[name]


def family_model(fam):
    return {'cpa': 'hw', 'dpa': 'bit0'}.get(fam, 'value')


def make_analysis(fam, kind, prec, disc='maxabs', convergence_step=None, auto=False, words=None, cls=None, fresh_sf=False):
    s = sc()
    install_lut_memo()
    sf = selection(kind, words, fresh=fresh_sf)
    kw = dict(selection_function=sf, model=model_obj(family_model(fam)), precision=prec)
    if kind == 'attack':
        kw['discriminant'] = getattr(s, disc)
        if convergence_step is not None:
            kw['convergence_step'] = convergence_step
    name = {'cpa': 'CPA', 'dpa': 'DPA', 'anova': 'ANOVA', 'nicv': 'NICV', 'snr': 'SNR', 'mia': 'MIA'}[fam] + ('Attack' if kind == 'attack' else 'Reverse')
    C = cls or getattr(s, name)
    if fam in ('anova', 'nicv', 'snr', 'mia') and not auto:
        kw['partitions'] = list(CLASSES)
    if fam == 'mia':
        kw['bin_edges'] = list(EDGES)
        kw['precision'] = 'uint32' if prec == 'float32' else 'float64'
    return C(**kw)


def standalone(fam, prec, auto=False):
    s = sc()
    install_lut_memo()
    if fam == 'cpa': return s.CPADistinguisher(precision=prec)
    if fam == 'dpa': return s.DPADistinguisher(precision=prec)
    kw = {} if auto else {'partitions': list(CLASSES)}
    if fam == 'mia':
        return s.MIADistinguisher(bin_edges=list(EDGES), precision='uint32' if prec == 'float32' else 'float64', **kw)
    return {'anova': s.ANOVADistinguisher, 'nicv': s.NICVDistinguisher, 'snr': s.SNRDistinguisher}[fam](precision=prec, **kw)


def oneshot(fam, prec, X, Y, auto=False):
    d = standalone(fam, prec, auto)
    d.update(np.ascontiguousarray(X), np.ascontiguousarray(Y))
    return d.compute()


def definition(fam, X, Y):
    """(ref, defined) in the layout of `results` (word dims..., samples) from the exact rational definition."""
    Yf = np.asarray(Y).reshape(Y.shape[0], -1)
    if fam == 'cpa': r, d = frac.pearson(X, Yf); amp = frac.AMP['pearson']
    elif fam == 'dpa': r, d = frac.dpa(X, Yf); amp = None
    elif fam == 'mia': r, d = frac.mia(X, Yf, EDGES, CLASSES); amp = None
    else: r, d = frac.partitioned(X, Yf, CLASSES, fam); amp = frac.AMP[fam]
    shp = tuple(Y.shape[1:]) + (X.shape[1],)
    return r.reshape(shp), d.reshape(shp), (None if amp is None else amp.reshape(shp))


def py_discriminant(name, res):
    """Plain numpy re-statement of the five ready-made discriminants (reduce the last axis, NaN ignored)."""
    with np.errstate(all='ignore'):
        import warnings
        with warnings.catch_warnings():
            warnings.simplefilter('ignore')
            if name == 'nanmax': return np.nanmax(res, axis=-1)
            if name == 'maxabs': return np.nanmax(np.abs(res), axis=-1)
            if name == 'opposite_min': return -np.nanmin(res, axis=-1)
            if name == 'nansum': return np.nansum(res, axis=-1)
            if name == 'abssum': return np.nansum(np.abs(res), axis=-1)
    raise ValueError(name)


# ---------------------------------------------------------------------------------------------------------
# recording distinguisher (what does the pipeline feed a distinguisher?)
_REC = {}


def recorder_classes():
    if 'a' not in _REC:
        s = sc()

        class RecMixin(s.DistinguisherMixin):
            def _initialize(self, traces, data):
                self.rec = []

            def _update(self, traces, data):
                self.rec.append((np.array(traces), np.array(data)))

            def _compute(self):
                w = self.rec[0][1].shape[1]
                out = np.zeros((w, self.rec[0][0].shape[1]), dtype='float64')
                for t, d in self.rec:
                    out += d.astype('float64').T @ t.astype('float64')
                return out

            @property
            def _distinguisher_str(self):
                return 'recorder'

        class RecAttack(s.BaseAttack, RecMixin):
            pass

        class RecReverse(s.BaseReverse, RecMixin):
            pass
        _REC['a'] = RecAttack; _REC['r'] = RecReverse
    return _REC['a'], _REC['r']


# ---------------------------------------------------------------------------------------------------------
# preprocesses used in chains (row-wise)
_PP = {}


def preprocesses():
    if not _PP:
        s = sc()

        @s.preprocess
        def affine(traces):
            return traces.astype('float64') * 2 + 1

        @s.preprocess
        def cube_minus(traces):
            t = traces.astype('float64')
            return t * t * t - t

        @s.preprocess
        def drop_first(traces):
            return traces[:, 1:]

        @s.preprocess
        def pairsum(traces):
            t = traces.astype('float64')
            return t[:, :-1] + 10 * t[:, 1:]
        _PP.update({'affine': affine, 'cube_minus': cube_minus, 'drop_first': drop_first, 'pairsum': pairsum, 'square': s.preprocesses.square,
                    'serialize_bit': s.preprocesses.serialize_bit})
    return _PP


def apply_chain_np(X, chain):
    """Independent numpy evaluation of a chain on a whole sample matrix."""
    out = np.asarray(X)
    for name in chain:
        if name == 'affine': out = out.astype('float64') * 2 + 1
        elif name == 'cube_minus': t = out.astype('float64'); out = t * t * t - t
        elif name == 'drop_first': out = out[:, 1:]
        elif name == 'pairsum': t = out.astype('float64'); out = t[:, :-1] + 10 * t[:, 1:]
        elif name == 'square': out = out.astype(max(out.dtype, np.dtype('float32'))) ** 2
        elif name == 'serialize_bit':
            out = np.unpackbits(out.astype('uint8')[:, :, None], axis=2).reshape(out.shape[0], -1)
        else: raise ValueError(name)
    return out


def frame_np(X, frame):
    if frame is None: return X
    if isinstance(frame, range): frame = list(frame)          # a range is an index list (negative entries count from the end)
    return X[:, frame]
