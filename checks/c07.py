"""C07 - ready-made AES/DES selection functions predict the real cipher state under the true key (E3).

For every class of aes/des selection_functions.{encrypt,decrypt}: (i) the column at guess = compute_expected_key(key)[w]
equals word w of the reference cipher's state at the targeted operation for the real key (expected_key itself must be
the reference first/last round key, for every key size); (ii) every (data word value, guess) pair of the complete
per-word domain equals the reference computation with the guess substituted; (iii) words / guesses selections equal the
corresponding slice of the full output.
"""
PROPERTY = 'C07'
LEVEL = 'model_checking'
ENGINE = 'E3'
RULE = ('structure-complete enumeration: every selection-function class (AES 5+5, DES 8+8) x key sizes x words menu {None,int first,int last,[one],permuted list,repeated ndarray,stepped '
        'slice} x guesses menu {default,permutation,subset,single} x tag configuration {default, custom tags with colliding decoy metadata}; data pools make the per-word domain complete: '
        'AES all 256x256 (byte, guess) pairs per word, DES all 64x64(x16 L-nibbles) combinations per word; a case = one (class, config, trace, guess, word) output entry; '
        'non-trivial = entry belongs to a guess different from 0 or to the true-key column')
ASSUMPTIONS = ['numpy is trusted', 'keys: FIPS/worked-example keys + seeded keys per key size (the per-word computation is complete over (data word, guess))']
TRUSTED = ['mc/refs/aes.py, mc/refs/des.py (self-tested at start-up)']
TECHNIQUE = 'exhaustive enumeration of the per-word (data value, guess) domain and of the words/guesses/tag configuration lattice on the real selection functions against cipher reference models'
LEVEL_TEXT = ('Every ready-made selection function is executed on pools covering every (data word value, guess) pair for every word and compared entry by entry with the FIPS reference '
              'cipher: true-key column against the reference state trace of the real key, other columns against the reference round computation with the guess substituted, '
              'expected keys against reference round keys for all key sizes, words/guesses/tag variants against slices of the full output.')
LEVEL_NOTE = 'Trusted: numpy, reference ciphers. Bound: a handful of master keys per key size (the hypothesis computation itself is covered completely per word).'
DESIGN_REF = 'DESIGN.md section 3, C07'

AES_CLASSES = {'encrypt': ['FirstAddRoundKey', 'LastAddRoundKey', 'FirstSubBytes', 'LastSubBytes', 'DeltaRLastRounds'],
               'decrypt': ['FirstAddRoundKey', 'LastAddRoundKey', 'FirstSubBytes', 'LastSubBytes', 'DeltaRFirstRounds']}
DES_CLASSES = {'encrypt': ['FirstAddRoundKey', 'LastAddRoundKey', 'FirstSboxes', 'LastSboxes', 'FeistelRFirstRounds', 'FeistelRLastRounds', 'DeltaRFirstRounds', 'DeltaRLastRounds'],
               'decrypt': ['FirstAddRoundKey', 'LastAddRoundKey', 'FirstSboxes', 'LastSboxes', 'FeistelRFirstRounds', 'FeistelRLastRounds', 'DeltaRFirstRounds', 'DeltaRLastRounds']}


def bound(tier):
    return {'aes_pairs_per_word': 65536, 'des_pool_blocks': 1024 if tier == 'quick' else 4096}


def shards(tier, seed):
    out = []
    for ns, names in AES_CLASSES.items():
        for n in names:
            out.append({'name': 'aes-%s-%s' % (ns, n), 'cipher': 'aes', 'ns': ns, 'cls': n, 'cost': 10})
    for ns, names in DES_CLASSES.items():
        for n in names:
            out.append({'name': 'des-%s-%s' % (ns, n), 'cipher': 'des', 'ns': ns, 'cls': n, 'cost': 30})
    return out


def run_shard(shard, ctx):
    import numpy as np
    from mc.common import Collector
    col = Collector()
    if shard['cipher'] == 'aes': _aes(shard, ctx, col, np)
    else: _des(shard, ctx, col, np)
    return col.result()


def _words_menu(nw, np):
    return [('None', None, np.arange(nw)), ('int-first', 0, 0), ('int-last', nw - 1, nw - 1), ('one-list', [3], np.array([3])),
            ('perm-list', [2, 0, 5, 1], np.array([2, 0, 5, 1])), ('perm-contig', [0, 2, 1, 3], np.array([0, 2, 1, 3])), ('perm-contig-nd', np.array([4, 6, 5, 7]), np.array([4, 6, 5, 7])), ('rep-array', np.array([1, 1, 4]), np.array([1, 1, 4])),
            ('step-slice', slice(1, None, 3), np.arange(nw)[1::3])]


def _guess_menu(ng, np, seed):
    perm = np.random.RandomState(seed + 5).permutation(ng).astype('uint8')
    return [('default', None, np.arange(ng)), ('perm', perm, perm.astype(int)), ('subset', np.array([5, 1, ng - 56], dtype='uint8'), np.array([5, 1, ng - 56])),
            ('single', np.array([7], dtype='uint8'), np.array([7])), ('range', range(3, 9), np.arange(3, 9))]


def _compare(col, fp, got, exp, case, what):
    import numpy as np
    got = np.asarray(got)
    n = int(exp.size)
    col.evaluations += n; col.states += n
    if got.shape != exp.shape:
        col.violation(fp + '/shape', '%s: output shape %s, expected %s' % (what, got.shape, exp.shape), case); return False
    if not np.array_equal(got, exp):
        bad = got != exp
        idx = tuple(int(i) for i in np.argwhere(bad)[0])
        col.violations_n(fp, int(bad.sum()), '%s: entry %s is %d, reference gives %d' % (what, idx, int(got[idx]), int(exp[idx])), dict(case, index=list(idx)))
        return False
    return True


def _aes(shard, ctx, col, np):
    import scared
    from mc.refs import aes as R
    from mc.common import rng_for
    R.selftest()
    ns, cls = shard['ns'], shard['cls']
    SF = getattr(getattr(scared.aes.selection_functions, ns), cls)
    seed = ctx['seed']
    rng = rng_for(seed, 'c07-aes', ns, cls)
    SB = R.SBOX_V; ISB = R.INV_SBOX_V
    sr = np.array(R.shift_rows(list(range(16))))
    # which formula / side this class is (by its documented meaning, independent of the implementation)
    kind = {('encrypt', 'FirstAddRoundKey'): ('ark', 'pt'), ('encrypt', 'LastAddRoundKey'): ('ark', 'ct'), ('encrypt', 'FirstSubBytes'): ('sb', 'pt'),
            ('encrypt', 'LastSubBytes'): ('isb', 'ct'), ('encrypt', 'DeltaRLastRounds'): ('delta', 'ct'),
            ('decrypt', 'FirstAddRoundKey'): ('ark', 'ct'), ('decrypt', 'LastAddRoundKey'): ('ark', 'pt'), ('decrypt', 'FirstSubBytes'): ('isb', 'ct'),
            ('decrypt', 'LastSubBytes'): ('sb', 'pt'), ('decrypt', 'DeltaRFirstRounds'): ('delta', 'ct')}[(ns, cls)]
    op, side = kind
    tagname = 'plaintext' if side == 'pt' else 'ciphertext'

    def formula(data, guesses):
        d = data.astype(np.uint8)[:, None, :]; g = np.asarray(guesses).astype(np.uint8)[None, :, None]
        x = d ^ g
        if op == 'ark': return x
        if op == 'sb': return SB[x]
        if op == 'isb': return ISB[x]
        return data.astype(np.uint8)[:, sr][:, None, :] ^ ISB[x]

    i = np.arange(256)[:, None]; w = np.arange(16)[None, :]
    pool = ((i * (2 * w + 1) + w) % 256).astype(np.uint8)          # byte w runs through all 256 values
    # (ii) complete (byte, guess) domain for every word, default configuration
    sf = SF()
    got = sf(**{tagname: pool})
    col.transitions += 1
    exp_full = formula(pool, np.arange(256))
    col.nontrivial += int(exp_full.size - exp_full[:, 0].size)
    _compare(col, 'C07/aes/%s.%s/hypotheses' % (ns, cls), got, exp_full, {'ns': ns, 'cls': cls, 'config': 'default'}, 'all (byte, guess) pairs')
    # byte values held in a wider integer dtype are legal input (np.array(list), randint without dtype, ...) and must give the same hypotheses
    for dt in ('int64', 'uint16', 'int32'):
        try:
            got_w = sf(**{tagname: pool.astype(dt)})
        except Exception as e:
            col.violation('C07/aes/%s.%s/raised' % (ns, cls), '%s data: %s: %s' % (dt, type(e).__name__, e), {'ns': ns, 'cls': cls, 'dtype': dt}); continue
        col.transitions += 1
        _compare(col, 'C07/aes/%s.%s/hypotheses-wide-dtype' % (ns, cls), got_w, exp_full, {'ns': ns, 'cls': cls, 'config': 'default', 'dtype': dt}, 'all (byte, guess) pairs, data stored as %s' % dt)
    # (i) + expected key for every key size
    for nk in (16, 24, 32):
        keys = [np.arange(nk, dtype=np.uint8), rng.randint(0, 256, nk).astype(np.uint8), rng.randint(0, 256, nk).astype(np.uint8)]
        for key in keys:
            rk = R.round_keys_v(key[None]); nr = nk // 4 + 6
            pts = np.vstack([pool[::4], rng.randint(0, 256, (32, 16)).astype(np.uint8)])
            tr = R.enc_trace_v(pts, rk)
            cts = tr[(nr, 3)]
            ek_ref = rk[0, 0] if side == 'pt' else rk[0, nr]
            for keyvariant in ('1d', 'int32'):
                ek = sf.compute_expected_key(key=key if keyvariant == '1d' else key.astype('int32'))
                col.transitions += 1; col.evaluations += 16; col.states += 16; col.nontrivial += 16
                if not np.array_equal(np.asarray(ek).reshape(-1), ek_ref):
                    col.violation('C07/aes/%s.%s/expected-key/aes%d' % (ns, cls, nk * 8), 'compute_expected_key(%s) = %s, reference %s round key is %s'
                                  % (key.tolist(), np.asarray(ek).tolist(), 'first' if side == 'pt' else 'last', ek_ref.tolist()), {'ns': ns, 'cls': cls, 'key': key.tolist()})
            state = {'ark': tr[(0, 3)] if side == 'pt' else tr[(nr, 2)], 'sb': tr[(1, 0)], 'isb': tr[(nr - 1, 3)][:, sr],
                     'delta': (tr[(nr - 1, 3)] ^ cts)[:, sr]}[op]
            data = pts if side == 'pt' else cts
            out = sf(**{tagname: data}); col.transitions += 1
            ek = np.asarray(sf.compute_expected_key(key=key)).reshape(-1)
            if out.shape == (len(data), 256, 16) and ek.shape == (16,):
                truecol = out[np.arange(len(data))[:, None], ek[None, :].astype(int), np.arange(16)[None, :]]
                col.nontrivial += int(state.size)
                _compare(col, 'C07/aes/%s.%s/true-key-state/aes%d' % (ns, cls, nk * 8), truecol, state, {'ns': ns, 'cls': cls, 'key': key.tolist()},
                         'column at the expected key vs reference cipher state (key %s)' % key.tolist())
            else:
                col.violation('C07/aes/%s.%s/shape' % (ns, cls), 'output shape %s / expected-key shape %s' % (out.shape, ek.shape), {'ns': ns, 'cls': cls})
    # (iii) words x guesses x tags
    sub = pool[::8]
    for wn, wv, widx in _words_menu(16, np):
        for gn, gv, gidx in _guess_menu(256, np, seed):
            for tags in ('default', 'custom+decoys'):
                kw = {}
                if wv is not None: kw['words'] = wv
                if gv is not None: kw['guesses'] = gv
                case = {'ns': ns, 'cls': cls, 'words': wn, 'guesses': gn, 'tags': tags}
                try:
                    if tags == 'default':
                        s2 = SF(**kw); out = s2(**{tagname: sub})
                        ek = s2.compute_expected_key(key=np.arange(16, dtype=np.uint8))
                    else:
                        kw[tagname + '_tag'] = 'blk'; kw['key_tag'] = 'k2'
                        s2 = SF(**kw)
                        out = s2(blk=sub, data=(sub ^ 0x55), key=np.zeros(16, np.uint8), plaintext=sub ^ 1, ciphertext=sub ^ 2)
                        ek = s2.compute_expected_key(k2=np.arange(16, dtype=np.uint8), key=np.full(16, 9, np.uint8), blk=sub)
                except Exception as e:
                    col.violation('C07/aes/%s.%s/raised' % (ns, cls), '%s: %s' % (type(e).__name__, e), case); continue
                col.transitions += 2
                exp = formula(sub, gidx)[:, :, widx]
                col.nontrivial += int(exp.size)
                _compare(col, 'C07/aes/%s.%s/selection%s' % (ns, cls, '' if tags == 'default' else '-tags'), out, exp, case, 'words=%s guesses=%s tags=%s' % (wn, gn, tags))
                rk = R.round_keys_v(np.arange(16, dtype=np.uint8)[None])
                ekr = rk[0, 0] if side == 'pt' else rk[0, 10]
                if not np.array_equal(np.asarray(ek).reshape(-1), ekr):
                    col.violation('C07/aes/%s.%s/expected-key%s' % (ns, cls, '' if tags == 'default' else '-tags'), 'expected key %s, reference %s' % (np.asarray(ek).tolist(), ekr.tolist()), case)
    # a selection function has no memory: the same data ARRAY OBJECT rewritten in place between calls, then a shorter batch, give the hypotheses of the current contents
    buf = pool[::8].copy(); held = []
    for step in range(3):
        try:
            out = sf(**{tagname: buf if step < 2 else buf[:3]})
        except Exception as e:
            col.violation('C07/aes/%s.%s/raised' % (ns, cls), 'reused data array, call %d: %s: %s' % (step, type(e).__name__, e), {'ns': ns, 'cls': cls, 'history': step}); break
        col.transitions += 1
        exp = formula(buf if step < 2 else buf[:3], np.arange(256))
        col.nontrivial += int(exp.size)
        _compare(col, 'C07/aes/%s.%s/history' % (ns, cls), out, exp, {'ns': ns, 'cls': cls, 'history': step}, 'call %d on a data array object rewritten in place between calls' % step)
        held.append((step, out, np.array(out)))
        buf[...] = (buf[::-1] ^ (0x3c + step)).astype(np.uint8)
    # the hypotheses handed out by earlier calls belong to the caller: later calls (same shapes, other contents) must not rewrite them
    for step, out, snap in held:
        col.evaluations += 1; col.states += 1
        if not np.array_equal(np.asarray(out), snap):
            col.violation('C07/aes/%s.%s/earlier-result-rewritten' % (ns, cls), 'the array returned by call %d changed when the selection function was called again' % step, {'ns': ns, 'cls': cls, 'history': step})
    col.sample({'cipher': 'aes', 'ns': ns, 'cls': cls, 'pool': 'byte w of block i = (i(2w+1)+w) mod 256', 'example_block': pool[3].tolist()}, limit=1)


def _des(shard, ctx, col, np):
    import scared
    from mc.refs import des as R
    from mc.common import rng_for
    R.selftest()
    ns, cls = shard['ns'], shard['cls']
    SF = getattr(getattr(scared.des.selection_functions, ns), cls)
    seed, tier = ctx['seed'], ctx['tier']
    rng = rng_for(seed, 'c07-des', ns, cls)
    # decrypt.X is documented as the mirror of encrypt: First <-> Last (a decryption's first round works on the ciphertext with the last round key)
    canon = cls if ns == 'encrypt' else cls.replace('First', '@').replace('Last', 'First').replace('@', 'Last')
    side = 'pt' if ('First' in canon) else 'ct'
    op = 'ark' if 'AddRoundKey' in canon else ('sbox' if 'Sboxes' in canon else ('feistel' if 'FeistelR' in canon else 'delta'))
    tagname = 'plaintext' if side == 'pt' else 'ciphertext'
    SBT = np.array([[R.sbox(j, v) for v in range(64)] for j in range(8)], dtype=np.uint8)     # (8, 64) from the standard's row/column tables

    def halves(blocks):
        """-> e (N,8) six-bit words of E(R), invP(L) (N,8) nibbles, invP(R) (N,8) nibbles, for (L,R) = IP(block)."""
        e = []; il = []; ir = []
        for b in blocks:
            lr = R.perm(R.bits([int(x) for x in b]), R.IP); L, Rr = lr[:32], lr[32:]
            e.append(R.pack(R.perm(Rr, R.E), 6)); il.append(R.pack(R.perm(L, R.INVP), 4)); ir.append(R.pack(R.perm(Rr, R.INVP), 4))
        return np.array(e, dtype=np.uint8), np.array(il, dtype=np.uint8), np.array(ir, dtype=np.uint8)

    def formula(blocks, guesses):
        e, il, ir = halves(blocks)
        x = e[:, None, :] ^ np.asarray(guesses).astype(np.uint8)[None, :, None]
        if op == 'ark': return x
        s = SBT[np.arange(8)[None, None, :], x]
        if op == 'sbox': return s
        if op == 'feistel': return il[:, None, :] ^ s
        return il[:, None, :] ^ ir[:, None, :] ^ s

    # structured pool: R nibbles alternate (a, b) -> every E word takes all 64 values; L = P(c c c c c c c c) -> invP(L) nibble = c
    nl = 4 if tier == 'quick' else 16
    blocks = []
    for c in range(nl):
        cc = (c * 5 + 3) % 16 if nl == 4 else c
        L = R.perm(R.bits([cc] * 8, 4), R.P)
        for a in range(16):
            for b in range(16):
                Rr = R.bits([a, b] * 4, 4)
                blocks.append(R.pack(R.perm(L + Rr, R.FP)))
    pool = np.array(blocks, dtype=np.uint8)
    sf = SF()
    got = sf(**{tagname: pool}); col.transitions += 1
    exp_full = formula(pool, np.arange(64))
    col.nontrivial += int(exp_full.size - exp_full[:, 0].size)
    _compare(col, 'C07/des/%s.%s/hypotheses' % (ns, cls), got, exp_full, {'ns': ns, 'cls': cls, 'config': 'default'}, 'all (E word, guess, L nibble) combinations')
    for dt in ('int64', 'uint16'):
        sub_w = pool[::5]
        try:
            got_w = sf(**{tagname: sub_w.astype(dt)})
        except Exception as e:
            col.violation('C07/des/%s.%s/raised' % (ns, cls), '%s data: %s: %s' % (dt, type(e).__name__, e), {'ns': ns, 'cls': cls, 'dtype': dt}); continue
        col.transitions += 1
        _compare(col, 'C07/des/%s.%s/hypotheses-wide-dtype' % (ns, cls), got_w, exp_full[::5], {'ns': ns, 'cls': cls, 'config': 'default', 'dtype': dt}, 'byte values stored as %s' % dt)
    # (i) true key vs the reference cipher trace
    keys = [np.frombuffer(bytes.fromhex('133457799BBCDFF1'), dtype=np.uint8), rng.randint(0, 256, 8).astype(np.uint8), rng.randint(0, 256, 8).astype(np.uint8)]
    pts = np.vstack([pool[::37], rng.randint(0, 256, (24, 8)).astype(np.uint8)])
    for key in keys:
        rk = R.key_schedule(key.tolist())
        traces = [R.des_trace(p.tolist(), rk)[0] for p in pts]
        cts = np.array([t[(15, 9)] for t in traces], dtype=np.uint8)
        ek_ref = np.array(rk[0] if side == 'pt' else rk[15], dtype=np.uint8)
        ek = np.asarray(sf.compute_expected_key(key=key)).reshape(-1)
        col.transitions += 1; col.evaluations += 8; col.states += 8; col.nontrivial += 8
        if not np.array_equal(ek, ek_ref):
            col.violation('C07/des/%s.%s/expected-key' % (ns, cls), 'compute_expected_key(%s) = %s, reference %s round key is %s' % (key.tolist(), ek.tolist(), 'first' if side == 'pt' else 'last', ek_ref.tolist()),
                          {'ns': ns, 'cls': cls, 'key': key.tolist()})
            continue

        def st(t):
            if side == 'pt':
                return {'ark': t[(0, 2)], 'sbox': t[(0, 3)], 'feistel': t[(0, 7)], 'delta': t[(0, 8)]}[op]
            R15, R14 = t[(14, 5)][0:4], t[(14, 5)][4:8]
            return {'ark': t[(15, 2)], 'sbox': t[(15, 3)], 'feistel': R.pack(R.perm(R.bits(R14), R.INVP), 4),
                    'delta': R.pack(R.perm(R.bits([a ^ b for a, b in zip(R15, R14)]), R.INVP), 4)}[op]
        state = np.array([st(t) for t in traces], dtype=np.uint8)
        data = pts if side == 'pt' else cts
        out = sf(**{tagname: data}); col.transitions += 1
        if out.shape == (len(data), 64, 8):
            truecol = out[np.arange(len(data))[:, None], ek[None, :].astype(int), np.arange(8)[None, :]]
            col.nontrivial += int(state.size)
            _compare(col, 'C07/des/%s.%s/true-key-state' % (ns, cls), truecol, state, {'ns': ns, 'cls': cls, 'key': key.tolist()}, 'column at the expected key vs reference cipher state (key %s)' % key.tolist())
        else:
            col.violation('C07/des/%s.%s/shape' % (ns, cls), 'output shape %s' % (out.shape,), {'ns': ns, 'cls': cls})
    # (iii) words x guesses x tags
    sub = pool[::29]
    for wn, wv, widx in _words_menu(8, np):
        for gn, gv, gidx in _guess_menu(64, np, seed):
            for tags in ('default', 'custom+decoys'):
                kw = {}
                if wv is not None: kw['words'] = wv
                if gv is not None: kw['guesses'] = gv
                case = {'ns': ns, 'cls': cls, 'words': wn, 'guesses': gn, 'tags': tags}
                key = keys[0]
                try:
                    if tags == 'default':
                        s2 = SF(**kw); out = s2(**{tagname: sub}); ek = s2.compute_expected_key(key=key)
                    else:
                        kw[tagname + '_tag'] = 'blk'; kw['key_tag'] = 'k2'
                        s2 = SF(**kw)
                        out = s2(blk=sub, data=(sub ^ 0x55), key=np.zeros(8, np.uint8), plaintext=sub ^ 1, ciphertext=sub ^ 2)
                        ek = s2.compute_expected_key(k2=key, key=np.full(8, 9, np.uint8), blk=sub)
                except Exception as e:
                    col.violation('C07/des/%s.%s/raised' % (ns, cls), '%s: %s' % (type(e).__name__, e), case); continue
                col.transitions += 2
                exp = formula(sub, gidx)[:, :, widx]
                col.nontrivial += int(exp.size)
                _compare(col, 'C07/des/%s.%s/selection%s' % (ns, cls, '' if tags == 'default' else '-tags'), out, exp, case, 'words=%s guesses=%s tags=%s' % (wn, gn, tags))
                rk = R.key_schedule(key.tolist()); ekr = np.array(rk[0] if side == 'pt' else rk[15], dtype=np.uint8)
                if not np.array_equal(np.asarray(ek).reshape(-1), ekr):
                    col.violation('C07/des/%s.%s/expected-key%s' % (ns, cls, '' if tags == 'default' else '-tags'), 'expected key %s, reference %s' % (np.asarray(ek).tolist(), ekr.tolist()), case)
    # a selection function has no memory: the same data ARRAY OBJECT rewritten in place between calls, then a shorter batch, give the hypotheses of the current contents
    buf = pool[::29].copy(); held = []
    for step in range(3):
        try:
            out = sf(**{tagname: buf if step < 2 else buf[:3]})
        except Exception as e:
            col.violation('C07/des/%s.%s/raised' % (ns, cls), 'reused data array, call %d: %s: %s' % (step, type(e).__name__, e), {'ns': ns, 'cls': cls, 'history': step}); break
        col.transitions += 1
        exp = formula(buf if step < 2 else buf[:3], np.arange(64))
        col.nontrivial += int(exp.size)
        _compare(col, 'C07/des/%s.%s/history' % (ns, cls), out, exp, {'ns': ns, 'cls': cls, 'history': step}, 'call %d on a data array object rewritten in place between calls' % step)
        held.append((step, out, np.array(out)))
        buf[...] = (buf[::-1] ^ (0x3c + step)).astype(np.uint8)
    # the hypotheses handed out by earlier calls belong to the caller: later calls (same shapes, other contents) must not rewrite them
    for step, out, snap in held:
        col.evaluations += 1; col.states += 1
        if not np.array_equal(np.asarray(out), snap):
            col.violation('C07/des/%s.%s/earlier-result-rewritten' % (ns, cls), 'the array returned by call %d changed when the selection function was called again' % step, {'ns': ns, 'cls': cls, 'history': step})
    col.sample({'cipher': 'des', 'ns': ns, 'cls': cls, 'pool_blocks': int(len(pool)), 'example_block': pool[100].tolist()}, limit=1)
