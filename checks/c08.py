"""C08 - convergence traces are the attack scores on successive prefixes of the traces (E1/E3)."""
PROPERTY = 'C08'
LEVEL = 'model_checking'
ENGINE = 'E1'
RULE = ('exhaustive enumeration of every (trace-set size N in 1..10, convergence_step in 1..12, container batch size in 1..11) triple (1320 triples: step <,=,> batch size, step > N, non-dividing steps) and of two-run '
        'histories (sizes a in {1,2,3,5}, b in {1,2,4,6}, step 1..7, batch size in {1,2,3,5,11}) for the attack classes CPA, DPA, ANOVA, NICV, SNR, MIA, TemplateAttack, TemplateDPAAttack; the processed-trace count at '
        'every compute_results() is observed through a logging subclass; each convergence column is compared with the scores of a FRESH attack run once on exactly that prefix. A case = one (class, run history, step, '
        'batch size); a state = one (processed traces, columns so far) observed at a compute_results; non-trivial = at least two columns')
ASSUMPTIONS = ['numpy/numba/estraces trusted', 'exact integer pools: a column must be bit-identical to the fresh prefix attack (template attacks: within rounding, their scores are sums of non-representable terms)',
               'explicit class sets / bin edges (frozen-by-first-batch parameters are outside the property)']
TRUSTED = ['fresh prefix attacks of the same class as oracle (differential, no hand-written expected value)', 'LUT memo']
TECHNIQUE = 'exhaustive enumeration of (N, convergence_step, batch size) triples and two-run histories on the real attacks, with a per-compute state observer and fresh-prefix-attack differential oracle'
LEVEL_TEXT = ('For every attack class and every (N<=10, step<=12, batch size<=11) triple, plus two-run histories, the real run() is executed with a logging subclass: the points at which results are computed must be '
              'strictly increasing, at least one step apart except a final remainder, the number of columns must equal the number of distinct points, the last point must be the total, column j must equal the scores of '
              'a fresh attack on exactly the first n_j traces, and final results/scores must equal those of the same attack without convergence_step.')
LEVEL_NOTE = 'Trusted: numpy/numba/estraces. Bound: N<=10 per run, <=2 runs, step<=12.'
DESIGN_REF = 'DESIGN.md section 3, C08'

CLASSES8 = ('cpa', 'dpa', 'anova', 'nicv', 'snr', 'mia', 'tplstatic', 'tpldpa')


def bound(tier):
    return {'N_long': 'N in 11..19 (quick) / 24 (thorough) for every (step<=9, batch size<step) whose derived batch size does not divide the step', 'N': list(range(1, 11)), 'steps': list(range(1, 13)), 'batch_sizes': list(range(1, 12)), 'two_run': 'a in {1,2,3,5} x b in {1,2,4,6} x step 1..7 x bs in {1,2,3,5,11}'}


def shards(tier, seed):
    out = []
    for fam in CLASSES8:
        for prec in (('float32',) if tier == 'quick' else ('float32', 'float64')):
            for part in range(2):
                out.append({'name': '%s-%s-%d' % (fam, prec, part), 'fam': fam, 'prec': prec, 'part': part, 'cost': 10 if fam.startswith('tpl') or fam in ('anova', 'nicv', 'snr') else 5})
    return out


def _cases(fam, prec, part, tier):
    out = []
    if part == 0:
        for n in range(1, 11):
            for step in range(1, 13):
                for bs in range(1, 12):
                    out.append({'fam': fam, 'prec': prec, 'runs': [n], 'step': step, 'bs': bs})
        # longer sets where the derived batch size int(step / (step // bs)) does not divide the step (points drift off the multiples of the step)
        for step in range(2, 10):
            for bs in range(1, step):
                b = int(step / (step // bs))
                if step % b:
                    for n in range(11, 25 if tier == 'thorough' else 20):
                        out.append({'fam': fam, 'prec': prec, 'runs': [n], 'step': step, 'bs': bs})
        # many computation points on one attack object (growth of the stacked array): 17..20 and 33..35 columns
        for n in ((17, 20) if tier == 'quick' else (17, 18, 20, 33, 35)):
            for bs in (1, 4):
                out.append({'fam': fam, 'prec': prec, 'runs': [n], 'step': 1, 'bs': bs})
        out.append({'fam': fam, 'prec': prec, 'runs': [9, 9], 'step': 1, 'bs': 2})
        out.append({'fam': fam, 'prec': prec, 'runs': [16, 18], 'step': 2, 'bs': 2})
    else:
        for a in (1, 2, 3, 5):
            for b in (1, 2, 4, 6):
                for step in range(1, 8):
                    for bs in (1, 2, 3, 5, 11):
                        out.append({'fam': fam, 'prec': prec, 'runs': [a, b], 'step': step, 'bs': bs})
        # a refused run() in the middle (a container whose traces have another length: refused at its first batch) adds nothing: no column, no trace
        for a in (3, 5, 7, 10):
            for b in (2, 4):
                for step in (2, 3, 4, 5, 10):
                    for bs in (1, 3, 11):
                        out.append({'fam': fam, 'prec': prec, 'runs': [a, 'F', b], 'step': step, 'bs': bs})
        out.append({'fam': fam, 'prec': prec, 'runs': [5, 'F', 'F', 2], 'step': 2, 'bs': 2})
        if tier == 'thorough':
            for a, b, c in ((1, 1, 1), (2, 3, 2), (4, 1, 5), (3, 3, 3)):
                for step in range(1, 8):
                    for bs in (1, 2, 3, 7):
                        out.append({'fam': fam, 'prec': prec, 'runs': [a, b, c], 'step': step, 'bs': bs})
    return out


class Harness:
    """Pool of 40 rows; containers are consecutive slices of it, so every processed prefix is a prefix of the pool."""

    def __init__(self, fam, prec, seed):
        import numpy as np
        from checks import asys
        self.np = np; self.asys = asys; self.fam = fam; self.prec = prec; self.seed = seed
        self.pool = asys.make_set(40, 3, 2, seed, salt=77)
        self.s = asys.sc()
        self.prefix_cache = {}
        self.logged_classes = {}
        if fam.startswith('tpl'):
            from mc.common import rng_for
            rng = rng_for(seed, 'c08-building')
            nb = 12
            cls = (np.arange(nb) % 4).astype('uint8')
            self.bset = {'samples': (rng.randint(0, 10, (nb, 3)) + 2 * cls[:, None]).astype('uint8'), 'v': np.stack([cls, cls], axis=1), 'idx': np.arange(nb, dtype='uint32')}

    def _attack_class(self, logged):
        s = self.s
        base = {'cpa': s.CPAAttack, 'dpa': s.DPAAttack, 'anova': s.ANOVAAttack, 'nicv': s.NICVAttack, 'snr': s.SNRAttack, 'mia': s.MIAAttack, 'tplstatic': s.TemplateAttack, 'tpldpa': s.TemplateDPAAttack}[self.fam]
        if not logged:
            return base
        if self.fam not in self.logged_classes:
            class Logged(base):
                def compute_results(self):
                    self._verif_log.append(int(self.processed_traces))
                    return super().compute_results()
            self.logged_classes[self.fam] = Logged
        return self.logged_classes[self.fam]

    def make(self, step, logged):
        asys = self.asys; s = self.s
        C = self._attack_class(logged)
        if self.fam.startswith('tpl'):
            asys.install_lut_memo()
            with asys.BatchSize(5):
                cont = s.Container(asys.ths_of(self.bset))
                kw = dict(container_building=cont, reverse_selection_function=asys.selection('reverse', 0), model=s.Value(), precision=self.prec, partitions=[0, 1, 2, 3])
                if step is not None: kw['convergence_step'] = step
                if self.fam == 'tpldpa':
                    kw['selection_function'] = asys.selection('attack', 0)
                a = C(**kw)
                a._verif_log = []
                a.build()
            return a
        a = asys.make_analysis(self.fam, 'attack', self.prec, disc='maxabs', convergence_step=step, cls=C)
        a._verif_log = []
        return a

    def container(self, lo, hi):
        d = {k: v[lo:hi] for k, v in self.pool.items()}
        return self.s.Container(self.asys.ths_of(d))

    def prefix_scores(self, n):
        if n not in self.prefix_cache:
            a = self.make(None, False)
            with self.asys.BatchSize(1000):
                a.run(self.container(0, n))
            self.prefix_cache[n] = (self.np.array(a.scores), self.np.array(a.results))
        return self.prefix_cache[n]


def run_shard(shard, ctx):
    import numpy as np
    from mc.common import Collector, TOL
    col = Collector()
    tier, seed = ctx['tier'], ctx['seed']
    if shard.get('replay_case') is not None:
        c = shard['replay_case']
        h = Harness(c['fam'], c['prec'], seed)
        _case(col, h, c, np, TOL)
        return col.result()
    h = Harness(shard['fam'], shard['prec'], seed)
    for c in _cases(shard['fam'], shard['prec'], shard['part'], tier):
        _case(col, h, c, np, TOL)
    col.guard(col.counters.get('columns_compared', 0) > 0, 'vacuity: no convergence column compared')
    col.guard(col.counters.get('remainder_columns', 0) > 0, 'vacuity: no final-remainder column met')
    col.guard(col.counters.get('step_gt_batch', 0) > 0 and col.counters.get('step_lt_batch', 0) > 0, 'vacuity: step/batch-size relation not varied')
    return col.result()


def _case(col, h, c, np, TOL):
    fam = c['fam']; step = c['step']; bs = c['bs']
    label = '%s prec=%s runs=%s step=%d batch_size=%d' % (fam, c['prec'], c['runs'], step, bs)
    exact = not fam.startswith('tpl')
    tol = TOL[c['prec']]
    try:
        a = h.make(step, True)
    except Exception as e:
        col.violation('C08/%s/ctor-raised' % fam, '%s: %s %s' % (label, type(e).__name__, e), c); return
    lo = 0
    run_last_col = []      # index of the last column after each run
    points = []            # distinct processed-trace counts at which results were computed, in order
    run_of_point = []
    for ri, n in enumerate(c['runs']):
        before = len(a._verif_log)
        if n == 'F':
            ct0 = a.convergence_traces; cols0 = 0 if ct0 is None else ct0.shape[-1]; sc0 = np.array(a.scores)
            try:
                with h.asys.BatchSize(bs):
                    a.run(h.s.Container(h.asys.ths_of({k: v[lo:lo + 3] for k, v in h.pool.items()}), frame=slice(0, h.pool['samples'].shape[1] - 1)))
                col.count('refused_run_not_refused'); return                 # whether such a container is refused is C16's business; nothing to judge here
            except Exception:
                pass
            col.transitions += 1; col.count('refused_runs')
            ct1 = a.convergence_traces; cols1 = 0 if ct1 is None else ct1.shape[-1]
            if cols1 != cols0 or a.processed_traces != lo or not _same(np, a.scores, sc0, True, tol):
                col.violation('C08/%s/refused-run-adds-a-column' % fam, '%s: a run() refused at its first batch left %d convergence columns (%d before), %d processed traces (%d before)' % (label, cols1, cols0, a.processed_traces, lo), c)
            run_last_col.append(cols1 - 1)
            continue
        try:
            with h.asys.BatchSize(bs):
                a.run(h.container(lo, lo + n))
        except Exception as e:
            col.violation('C08/%s/run-raised' % fam, '%s: run() %d raised %s: %s' % (label, ri + 1, type(e).__name__, str(e)[:200]), c); return
        lo += n
        col.transitions += 1
        for cnt in a._verif_log[before:]:
            if not points or cnt != points[-1]:
                points.append(cnt); run_of_point.append(ri)
            col.states += 1
        ct = a.convergence_traces
        ncol = 0 if ct is None else ct.shape[-1]
        run_last_col.append(ncol - 1)
        # after every run: last column = final scores, total reached, results/scores = attack without convergence on the same traces
        if ct is None or ncol == 0:
            col.violation('C08/%s/no-column' % fam, '%s: no convergence column after run %d (%d traces processed)' % (label, ri + 1, lo), c); return
        if a._verif_log[-1] != lo or a.processed_traces != lo:
            col.violation('C08/%s/last-point-not-total' % fam, '%s: last computation after run %d at %d traces, %d processed' % (label, ri + 1, a._verif_log[-1], lo), c)
        fs, fr = h.prefix_scores(lo)
        if not _same(np, a.scores, fs, exact, tol):
            col.violation('C08/%s/final-scores-changed' % fam, '%s: scores after run %d differ from the same attack without convergence_step on the %d traces' % (label, ri + 1, lo), c)
        if not _same(np, a.results, fr, exact, tol):
            col.violation('C08/%s/final-results-changed' % fam, '%s: results after run %d differ from the same attack without convergence_step on the %d traces' % (label, ri + 1, lo), c)
        if not _same(np, ct[..., -1], a.scores, True, tol):
            col.violation('C08/%s/last-column-not-final-scores' % fam, '%s: last convergence column after run %d is not the final scores' % (label, ri + 1), c)
    ct = a.convergence_traces
    ncol = ct.shape[-1]
    if any(q <= p for p, q in zip(points, points[1:])):
        col.violation('C08/%s/points-not-increasing' % fam, '%s: computation points %s' % (label, points), c)
    if ncol != len(points):
        col.violation('C08/%s/column-count' % fam, '%s: %d columns for computation points %s' % (label, ncol, points), c)
    # spacing: every point is >= step after the previous regular point, unless it is the last point of its run (final remainder)
    last_regular = 0
    for j, p in enumerate(points):
        is_last_of_run = (j == len(points) - 1) or run_of_point[j + 1] != run_of_point[j]
        if p - last_regular >= step:
            last_regular = p
        elif is_last_of_run:
            col.count('remainder_columns')
        else:
            col.violation('C08/%s/points-closer-than-step' % fam, '%s: point %d is only %d traces after the previous regular point %d and is not a final remainder (points %s)' % (label, p, p - last_regular, last_regular, points), c)
    for j in range(min(ncol, len(points))):
        ps, _ = h.prefix_scores(points[j])
        col.count('columns_compared')
        if not _same(np, ct[..., j], ps, exact, tol):
            col.violation('C08/%s/column-not-prefix-scores' % fam, '%s: column %d (after %d traces; points %s) differs from the scores of a fresh attack on exactly the first %d traces: got %s expected %s'
                          % (label, j, points[j], points, points[j], np.asarray(ct[..., j]).ravel()[:4].tolist(), np.asarray(ps).ravel()[:4].tolist()), c)
            break
    col.evaluations += 1
    if ncol >= 2: col.nontrivial += 1
    col.count('step_gt_batch' if step > bs else ('step_lt_batch' if step < bs else 'step_eq_batch'))
    col.outcomes.add((fam, tuple(c['runs']), tuple(points)))
    col.sample({'case': c, 'computation_points': points, 'columns': int(ncol)}, limit=2)


def _same(np, got, exp, exact, tol):
    got = np.asarray(got); exp = np.asarray(exp)
    if got.shape != exp.shape:
        return False
    if exact:
        return bool(np.array_equal(got, exp, equal_nan=True))
    with np.errstate(all='ignore'):
        if (np.isnan(got) != np.isnan(exp)).any():
            return False
        if not np.isfinite(exp).any():
            return True
        scale = max(1.0, float(np.nanmax(np.abs(exp))))
        return bool(np.nanmax(np.abs(got.astype('float64') - exp.astype('float64'))) <= 64 * tol * scale)
