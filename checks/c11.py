"""C11 - results are independent of the run-time kernel selection and of the numba thread count (E1 with environment answers)."""
PROPERTY = 'C11'
LEVEL = 'model_checking'
ENGINE = 'E1'
RULE = ('exhaustive enumeration of environment answers on real ANOVA/NICV/SNR distinguishers and the template builder: ALL 2^(B-1) kernel sequences for B = 1..5 (quick) / 1..7 (thorough) batches (the first batch of an '
        'object always runs kernel 1; later choices are forced through the scripted process_time clock, so the production argmin(_timings) code decides and a recorder verifies which kernel ran) x numba thread counts '
        '{1,2,3,4,8,16} (quick) / 1..16 (thorough) x value pools {small integers in uint8/int16, dyadic fractions in float32/float64, 1000+dyadic and 1000+k/16384 (full float32 mantissa) in float32 (traces narrower than the precision)} x precision x class-set '
        'sizes {4, 9 (both kernels), 10, 64 (kernel 1 only)} with undeclared class values present; MIA and the t-test accumulator (single kernels) over the thread counts. A case = one (configuration, kernel sequence, '
        'thread count); a state = one (batch index, accumulator digest); non-trivial = a sequence that uses kernel 2 or a thread count > 1')
ASSUMPTIONS = ['numpy/numba trusted', 'iteration-to-thread assignment inside one prange is not owned (disjoint writes; observed through the thread-count sweep)',
               'bit-identity is required whenever every sum is exactly representable in the requested precision (all pools except 1000+dyadic at float32 precision, which is compared with the definition only where well conditioned)']
TRUSTED = ['mc/env.py scripted clock + kernel recorder (a mismatch between forced and observed kernel is exit 2)', 'mc/refs/frac.py', 'LUT memo']
TECHNIQUE = 'exhaustive enumeration of all kernel-choice sequences (forced through the scripted clock, production selection code unmodified) and thread counts on the real distinguishers; bit-identity across all environment answers plus exact reference'
LEVEL_TEXT = ('Every kernel sequence over up to 5 (quick) / 7 (thorough) batches and every thread count of the menu is executed on the real partitioned distinguishers and template builder; accumulators and results must be '
              'bit-identical across all sequences and thread counts whenever the sums are exactly representable in the requested precision (including float32 traces with a large offset at float64 precision) and equal '
              'to the definition; both kernels must be observed by the recorder.')
LEVEL_NOTE = 'Trusted: scripted clock/recorder seams, numpy, numba. Not owned: OpenMP iteration scheduling inside a kernel.'
DESIGN_REF = 'DESIGN.md section 3, C11'
WORKER_ENV = {'NUMBA_NUM_THREADS': '16', 'OMP_NUM_THREADS': None, 'OMP_WAIT_POLICY': 'PASSIVE', 'GOMP_SPINCOUNT': '0'}


def bound(tier):
    return {'max_batches': 5 if tier == 'quick' else 7, 'thread_counts': [1, 2, 3, 4, 8, 16] if tier == 'quick' else list(range(1, 17)), 'class_set_sizes': [4, 9, 10, 64]}


POOLS = [('exact', 'uint8'), ('signed', 'int16'), ('dyadic', 'float32'), ('dyadic', 'float64'), ('offset', 'float32'), ('offsetfine', 'float32')]


def shards(tier, seed):
    out = []
    for pool, tdt in POOLS:
        for prec in ('float32', 'float64'):
            out.append({'name': 'partitioned-%s-%s-%s' % (pool, tdt, prec), 'kind': 'partitioned', 'pool': pool, 'tdt': tdt, 'prec': prec, 'cost': 10})
            out.append({'name': 'tplbuild-%s-%s-%s' % (pool, tdt, prec), 'kind': 'tplbuild', 'pool': pool, 'tdt': tdt, 'prec': prec, 'cost': 14})
    out.append({'name': 'single-kernels', 'kind': 'single', 'cost': 6})
    return out


def _pool(np, rng, pool, tdt, n, S):
    if pool == 'exact': X = rng.randint(0, 16, (n, S))
    elif pool == 'signed': X = rng.randint(-8, 8, (n, S))
    elif pool == 'dyadic': X = rng.randint(-16, 16, (n, S)) / 8.0
    elif pool == 'offset': X = 1000.0 + rng.randint(-16, 16, (n, S)) / 8.0
    # every value fills the 24-bit mantissa of float32 (10 integer + 14 fractional bits) so that already the sum of two of them is not a float32, while all sums and
    # sums of squares of a few dozen of them are exact in float64: any accumulation done in the storage type shows as a broken bit-identity at float64 precision
    elif pool == 'offsetfine': X = 1000.0 + (2 * rng.randint(-4096, 4096, (n, S)) + 1) / 16384.0
    else: raise ValueError(pool)
    return X.astype(tdt)


def _threads(tier):
    return [1, 2, 3, 4, 8, 16] if tier == 'quick' else list(range(1, 17))


def run_shard(shard, ctx):
    import numpy as np
    from mc.common import Collector, install_lut_memo
    from mc.refs import frac
    col = Collector()
    frac.selftest(); install_lut_memo()
    if shard.get('replay_case') is not None:
        c = shard['replay_case']
        {'partitioned': _forced, 'tplbuild': _forced}[c['kind']](col, ctx, np, dict(c, only=c))
        return col.result()
    if shard['kind'] in ('partitioned', 'tplbuild'):
        _forced(col, ctx, np, shard)
    else:
        _single(col, ctx, np)
    return col.result()


def _forced(col, ctx, np, shard):
    import itertools
    import numba
    import scared
    from scared.distinguishers import partitioned as P, template as T
    from checks.dsys import tplbuild_class
    from mc.common import rng_for, digest, TOL, compare
    from mc.refs import frac
    from mc import env
    tier, seed = ctx['tier'], ctx['seed']
    kind, pool, tdt, prec = shard['kind'], shard['pool'], shard['tdt'], shard['prec']
    maxB = 5 if tier == 'quick' else 7
    only = shard.get('only')
    if kind == 'partitioned':
        clock = env.install_clock(P); rec = env.install_recorder(P.PartitionedDistinguisherMixin)
        fams = ('anova', 'nicv', 'snr')
        ksizes = (4, 9, 10, 64)
    else:
        clock = env.install_clock(T); rec = env.install_recorder(T._TemplateBuildDistinguisherMixin)
        fams = ('tplbuild',)
        ksizes = (3, 9, 12)
    exact = not (pool in ('offset', 'offsetfine') and prec == 'float32')
    tol = TOL[prec]
    n = 2 * maxB
    S, W = (3, 2) if kind == 'partitioned' else (7, 1)          # 7 samples: more than, and not a multiple of, the thread counts 2, 3, 4
    seen_states = set()
    for K in ksizes:
        rng = rng_for(seed, 'c11', kind, pool, K)
        X = _pool(np, rng, pool, tdt, n, S)
        classes = list(range(K)) if K != 9 else [0, 1, 2, 3, 4, 5, 6, 7, 20]
        vals = classes[:3] + [classes[-1], 99]                                        # a few declared classes (incl. the last one) + the undeclared value 99
        Y = np.array(vals)[rng.randint(0, len(vals), (n, W))].astype('uint8')
        for fam in fams:
            if only and (only['fam'] != fam or only['K'] != K): continue
            def make():
                if fam == 'tplbuild':
                    return tplbuild_class()(partitions=classes, precision=prec)
                return {'anova': scared.ANOVADistinguisher, 'nicv': scared.NICVDistinguisher, 'snr': scared.SNRDistinguisher}[fam](partitions=classes, precision=prec)

            def accs(d):
                if fam == 'tplbuild': return (d._exi, d._exxi, d._counters)
                return (d.sum, d.sum_square, d.counters)
            for B in range(1, maxB + 1):
                if only and only['B'] != B: continue
                cuts = [round(i * n / B) for i in range(B + 1)]
                batches = [(X[a:b], Y[a:b]) for a, b in zip(cuts[:-1], cuts[1:])]
                both = K <= 9 if kind == 'partitioned' else True
                seqs = [(1,) + t for t in itertools.product((1, 2), repeat=B - 1)] if both else [(1,) * B]
                base = None
                # definition on all n rows
                if fam == 'tplbuild':
                    Tr, Pr, ok = frac.templates(X, Y[:, 0], classes)
                else:
                    ref, de = frac.partitioned(X, Y, classes, fam); amp = frac.AMP[fam]
                for seq in seqs:
                    for nt in _threads(tier):
                        if only and (list(only['seq']) != list(seq) or only['threads'] != nt): continue
                        if nt > 1 and not (seq == seqs[0] or seq == seqs[-1] or len(seq) == maxB or tier == 'thorough'):
                            # thread counts are swept on the all-kernel-1 sequence, the last sequence and every sequence of maximal length
                            continue
                        numba.set_num_threads(nt)
                        case = {'kind': kind, 'fam': fam, 'pool': pool, 'tdt': tdt, 'prec': prec, 'K': K, 'B': B, 'seq': list(seq), 'threads': nt}
                        label = '%s %s/%s prec=%s K=%d kernels=%s threads=%d' % (fam, pool, tdt, prec, K, list(seq), nt)
                        d = make()
                        try:
                            if both:
                                env.forced_updates(d, batches, seq, clock, rec)
                            else:
                                rec.ran.clear()
                                for tr, da in batches: d.update(tr, da)
                                if fam != 'tplbuild' and 2 in rec.ran:
                                    col.violation('C11/%s/kernel2-with-more-than-9-classes' % fam, '%s: recorder saw kernels %s' % (label, rec.ran), case)
                            res = d.compute()
                        except env.LostControl:
                            raise
                        except Exception as e:
                            col.violation('C11/%s/raised' % fam, '%s: %s %s' % (label, type(e).__name__, str(e)[:200]), case); continue
                        col.evaluations += 1; col.transitions += B + 1
                        if 2 in seq or nt > 1: col.nontrivial += 1
                        for k in set(seq): col.count('kernel%d_sequences' % k)
                        out = [np.array(a) for a in accs(d)] + [np.array(res)]
                        if fam == 'tplbuild': out += [np.array(d.pooled_covariance)]
                        seen_states.add((fam, K, B, digest(*out)))
                        if base is None:
                            base = (out, list(seq), nt)
                        elif exact:
                            names = ('sum', 'sum_square', 'counters', 'result') if fam != 'tplbuild' else ('_exi', '_exxi', '_counters', 'templates', 'pooled_covariance')
                            for nm, a, b in zip(names, out, base[0]):
                                if not np.array_equal(a, b, equal_nan=True):
                                    with np.errstate(all='ignore'):
                                        diff = float(np.nanmax(np.abs(a.astype('float64') - b.astype('float64')))) if a.shape == b.shape else float('inf')
                                    col.violation('C11/%s/depends-on-%s/%s' % (fam, 'kernel-sequence' if list(seq) != base[1] else 'thread-count', nm),
                                                  '%s: %s differs (max abs %.3g) from the same batches under kernels=%s threads=%d although every sum is exactly representable' % (label, nm, diff, base[1], base[2]), case)
                                    break
                        # definition
                        if fam == 'tplbuild':
                            if ok and frac.AMP['templates'] * float(np.finfo(prec).eps) < tol / 8:
                                for i, c in enumerate(classes):
                                    if int((Y[:, 0] == c).sum()) >= 2 and not np.allclose(res[i], Tr[i], rtol=tol, atol=tol * max(1.0, float(np.abs(Tr).max()))):
                                        col.violation('C11/tplbuild/templates-vs-definition', '%s: template row %d = %s, class mean %s' % (label, i, np.asarray(res[i]).tolist(), Tr[i].tolist()), case); break
                                if not np.allclose(d.pooled_covariance, Pr, rtol=0, atol=64 * tol * max(1.0, float(np.abs(Pr).max()))):
                                    col.violation('C11/tplbuild/covariance-vs-definition', '%s: pooled covariance %s, definition %s' % (label, np.asarray(d.pooled_covariance).tolist(), Pr.tolist()), case)
                                col.count('compared_with_definition')
                        else:
                            nz = np.abs(ref[de]); floor = 1.0 if fam == 'nicv' else (float(nz.max()) if nz.size and nz.max() > 0 else 1.0)
                            cm = compare(res, ref, de, tol, floor)
                            ill = de & (np.nan_to_num(amp, nan=np.inf) * float(np.finfo(prec).eps) > tol / 8)
                            col.count('ill_conditioned_not_compared', int(ill.sum()))
                            for kk in ('undefined_bad', 'defined_bad', 'value_bad'):
                                bad = cm[kk] & ~ill if kk != 'undefined_bad' else (cm[kk] if exact else cm[kk] & False)
                                if bad.any():
                                    idx = tuple(int(t) for t in np.argwhere(bad)[0])
                                    col.violation('C11/%s/%s-vs-definition' % (fam, kk), '%s: result%s=%r, definition %r' % (label, list(idx), float(res[idx]), float(ref[idx])), case); break
                            col.count('compared_with_definition')
                            col.err('%s/%s' % (fam, prec), cm['max_err'])
                        col.sample({'case': case}, limit=1)
    col.states += len(seen_states)
    numba.set_num_threads(1)
    if not only:
        col.guard(col.counters.get('kernel2_sequences', 0) > 0 and col.counters.get('kernel1_sequences', 0) > 0, 'vacuity: both kernels must be exercised (%s)' % col.counters)


def _single(col, ctx, np):
    """MIA and the t-test accumulator have one kernel each: sweep the thread counts."""
    import numba
    import scared
    from mc.common import rng_for
    tier, seed = ctx['tier'], ctx['seed']
    rng = rng_for(seed, 'c11-single')
    for tdt in ('uint8', 'float32', 'float64'):
        X = rng.randint(0, 16, (12, 5)).astype(tdt); Y = rng.randint(0, 5, (12, 3)).astype('uint8')
        base = {}
        for nt in _threads(tier):
            numba.set_num_threads(nt)
            for B in (1, 3, 4):
                cuts = [round(i * 12 / B) for i in range(B + 1)]
                d = scared.MIADistinguisher(bin_edges=[0, 4, 8, 12, 16], partitions=[0, 1, 2, 4])
                for a, b in zip(cuts[:-1], cuts[1:]): d.update(X[a:b], Y[a:b])
                r = d.compute()
                for prec in ('float32', 'float64'):
                    t = scared.TTestThreadAccumulator(precision=np.dtype(prec))
                    for a, b in zip(cuts[:-1], cuts[1:]): t.update(X[a:b])
                    t.compute()
                    key = (tdt, prec)
                    cur = (np.array(d.accumulators), np.array(r), np.array(t.sum), np.array(t.sum_squared), np.array(t.mean), np.array(t.var))
                    col.evaluations += 1; col.transitions += 2 * B + 2; col.states += 1
                    if nt > 1: col.nontrivial += 1
                    if key not in base: base[key] = (cur, nt, B)
                    else:
                        for nm, a_, b_ in zip(('mia accumulators', 'mia result', 'ttest sum', 'ttest sum_squared', 'ttest mean', 'ttest var'), cur, base[key][0]):
                            if not np.array_equal(a_, b_, equal_nan=True):
                                col.violation('C11/single-kernel/depends-on-threads-or-batching', '%s %s/%s differs between threads=%d batches=%d and threads=%d batches=%d' % (nm, tdt, prec, nt, B, base[key][1], base[key][2]),
                                              {'kind': 'single', 'tdt': tdt, 'prec': prec, 'threads': nt, 'B': B}); break
    # Kernel-internal data races are not owned by any scheduler here (see DESIGN 1.3 / 4): stress pass, SAMPLING and labelled so - few samples, few
    # bins/classes and many traces make every lost update visible in integer counts; compared with a plain numpy histogram.
    big = 200000 if tier == 'quick' else 600000
    Xb = rng.randint(0, 4, (big, 2)).astype('uint8'); Yb = rng.randint(0, 2, (big, 1)).astype('uint8')
    exp = np.zeros((2, 4, 2, 1), 'int64')
    for s_ in range(2):
        np.add.at(exp[s_, :, :, 0], (Xb[:, s_], Yb[:, 0]), 1)
    for nt in (1, 8, 16):
        numba.set_num_threads(nt)
        for rep in range(2):
            for B in (1, 3):
                d = scared.MIADistinguisher(bin_edges=[0, 1, 2, 3, 4], partitions=[0, 1])
                cuts = [round(i * big / B) for i in range(B + 1)]
                for a, b in zip(cuts[:-1], cuts[1:]): d.update(Xb[a:b], Yb[a:b])
                t = scared.TTestThreadAccumulator(precision=np.dtype('float64'))
                for a, b in zip(cuts[:-1], cuts[1:]): t.update(Xb[a:b])
                col.evaluations += 1; col.transitions += 2 * B; col.states += 1; col.count('kernel_race_stress_runs')
                if not np.array_equal(np.asarray(d.accumulators).astype('int64'), exp):
                    lost = int(exp.sum() - np.asarray(d.accumulators).astype('int64').sum())
                    col.violation('C11/single-kernel/mia-lost-updates', 'MIA histogram of %d traces x 2 samples with %d numba threads, %d batch(es): %d counts lost' % (big, nt, B, lost), {'kind': 'single', 'threads': nt, 'B': B, 'traces': big})
                if not np.array_equal(np.asarray(t.sum), Xb.sum(0).astype('float64')) or not np.array_equal(np.asarray(t.sum_squared), (Xb.astype('int64') ** 2).sum(0).astype('float64')):
                    col.violation('C11/single-kernel/ttest-sums-wrong', 't-test sums of %d traces with %d numba threads, %d batch(es) differ from the exact sums' % (big, nt, B), {'kind': 'single', 'threads': nt, 'B': B, 'traces': big})
    numba.set_num_threads(1)
    col.sample({'single_kernel_sweep': 'MIA + t-test accumulator', 'thread_counts': _threads(tier), 'race_stress': 'sampling pass, %d traces' % big}, limit=1)
