import re, subprocess, sys
WAVES = sys.argv[1] if len(sys.argv) > 1 else 'ten'
MISSED = int(sys.argv[2]) if len(sys.argv) > 2 else 38
"""Regenerates DESIGN.md section 8.5 from seeded/DETECTION.json (tools/seed_table.py).  usage: upd_design.py <waves-in-words> <missed-count>"""
s=open('/verif/DESIGN.md').read()
i=s.index('### 8.5 Seeded changes')
tab=subprocess.run(['/venv/bin/python','/verif/tools/seed_table.py'],capture_output=True,text=True).stdout
n=tab.count('\n')-2
sec='''### 8.5 Seeded changes: which check reports which change

%d property-breaking changes were obtained from fresh sub-agents in %s waves, each agent given only the text of one
property and a scratch worktree (nothing from /verif), asked for a change that still passes the pinned suite and needs
something specific to manifest (later waves also got a one-line hint on where to look, so as to spread over mechanisms).
Each was re-confirmed here (`tools/seeded.py verify`: demonstration passes on the clean tree, fails with the patch, 892/892
stable tests pass with the patch) and is kept under `seeded/<id>/` (patch.diff, demo.py, meta.json).
`tools/seeded.py runall` applies each patch in a scratch worktree, runs the quick tier of the property's check against it
(`VERIF_REPO`) and records the outcome in `seeded/DETECTION.json`; the table below is generated from it
(`tools/seed_table.py`).  All of them are reported (exit 1 with VIOLATION lines).

%d of them were **missed by the check as it stood when the change arrived** and led to the strengthening noted
here (the first thirty were written before most checks existed, so "missed" could only be observed for the later ones):

* C02-m1, C02-m4 (stale results when a convergence step is set) - C02 now also runs every attack history with a convergence step.
* C02-m3 (range frame with a negative bound) - descending / negative ranges, negative index lists, reversed slices added.
* C02-m5 (intermediate values narrowed to the dtype that fitted the first batch) - reverse pipelines are fed 16-bit values that outgrow 8 bits after a few rows.
* C03-m3 (float16 / narrow float sums) - float16 storage and a wide alphabet; C03-m4 (Fortran-ordered data linearised in memory order) - Fortran-ordered and strided data batches.
* C08-m2 (points drift when the derived batch size does not divide the step) - N extended to 19/24 for exactly those (step, batch size) pairs; C08-m4 (stacked array scrambled when it grows past 16 columns) - runs with 17..35 computation points.
* C09-m1 main effect (run after a failed run skips a set) - ok / failing / ok histories; C09-m2 (squares of a one-trace batch computed in uint8) - wrap-prone values; C09-m3 (polling with timed joins loses the failure) - timed joins modelled as yield points in E2.
* C10-m4 (`get_master_key` misses the first candidate) - keys whose searched bits are all ones / all zeros.
* C11-m2 (template kernel drops trailing samples for >= 2 threads) - 7-sample traces; C11-m4 (lost updates in a re-blocked MIA kernel) - kernel-race stress pass (sampling, labelled so: the kernels' internal races are not owned).
* C13-m4 (edges assigned through the attribute keep the default bin count) - edges assigned after construction.
* C14-m1 (divide by observed instead of declared classes) - unused declared class; C14-m3 (covariance buffer kept across builds) - second build() in the quick tier; C14-m4 (value used as row when first and last class are in place) - four classes [0,2,1,3] in C14 and C12.
* C16-m1 (stale automatic class set after a refused first call) - wide label alphabet + narrow refused batches; C16-m2 (partial template-DPA sums) - refusal in the last hypothesis column; C16-m3 (failed run() adds a convergence column) - analysis-level system with "no public observable changes".
* C17-m3 (non-monotonic `words` selection permuted) - non-monotonic word lists in C17 and C07; C17-m4 (scores cast to an integer precision) - MIA attacks with uint32 precision and a 1-bit model.
* C20-m4 (Path output + overwrite) - both output kinds on pre-existing files; C20-m5 (check() advances the counters) - check() -> run() histories.
* C07-m5 (a "cast once" branch for ciphertext bytes held in a wider dtype) - C07 feeds the byte values in uint16/int32/int64 arrays; C15-m5 (popcount through the byte view of the memory) - wide HammingWeight on Fortran-ordered, transposed and strided views; C19-m5 (index arithmetic in the index dtype) - extract_around_indexes with index arrays of every integer dtype at the dtype edge.  These three led to the layout/dtype differential oracles now in C03-C06, C15, C18, C19 ("the memory layout and the integer width of an array are not part of its value").
* C02-m6 (Container batch cursor kept when an iteration is abandoned) - histories with raised / peeked / half-consumed batch loops on the same Container; C13-m5 (edges cast to int64 for integer traces) - half-integer edges with integer samples, float32 linspace edges and automatic binning; C16-m5 (MIA automatic window kept from a refused first batch) - MIA systems with automatic bin edges; C17-m5 (Monobit pre-sets two partitions) - Monobit(3) attacks with automatic classes.
* C03-m6 (DPA column sum taken in the storage dtype) - float16 values whose sums leave float16; C04-m6 (LUT bounds guard drops negative values) - declared negative class values on int8/int16/int32 words; C18-m6 (`frame_1 or frame_2`) - single-point frames given as int, 0 included, for the time-frequency combinations; C19-m6 (eps added to the Pearson denominator) - unit-scale invariance of correlation and bcdc (same signals scaled by 2^-30).
* C05-m6 (a one-entry round-key memo that keeps a *reference* to the caller's key array) - C05, C06 and C10 now explore every call sequence of depth <= 4 (quick) / 5 (thorough) over {calls, in-place rewrites of the reused block / key arrays} ("the cipher has no memory"); C09-m5 (slice frames resolved once, `slice(None, None, -1)` becomes empty) - every frame spelling of C02 also goes through `TTestContainer`; C11-m5 (template kernel 2 sums classes in the storage dtype) - a float32 pool that fills the 24-bit mantissa, so that any sum taken in float32 breaks bit-identity at float64 precision; C13-m6 (`numpy.allclose` with its absolute default tolerance in the equal-spacing test) - the edge-validation menu is run at unit scales 1e-12 .. 2^40; C17-m6 (DPA `compute()` normalises its accumulator in place) - every other C17 configuration sets a convergence step (C01 reported it as well).
* C01-m7 (`compute()` memoised and handed out by reference) - the explorer's compute event now scribbles on the returned array ("the result belongs to the caller"); C06-m7 (round-key memo keyed on the key bytes but not on their shape) - consecutive calls giving the same bytes under every pair of legal shapes; C08-m7 (`finally: _final_compute()` in run()) - histories with a refused run() in the middle; C12-m6 (strict bound on the largest table entry) - class values 65535, 65536 and 131071 on 32-bit words.
* C03-m7 (alternative CPA computed in blocks of 256 words, the remainder block never written) - word counts 257 and 300; C07-m7 (AddRoundKey hypotheses returned as a view of a module-level work buffer) - results handed out by earlier calls are compared again after later calls, in C07 and in the C05/C06/C10 call histories; C14-m7 (template-DPA scores added candidate by candidate, a refusal at a later candidate leaves the first ones updated) - a refused matching run between two accepted ones in C14's explorer (C16 reported it too).
* C13-m7 (bin scale taken from the first interval instead of the whole range), C18-m7 (`StandardizeOn` stores the statistics of its first batch on the instance) and C19-m7 (`moving_var` clamps variances below 1.5e-8 of the mean square to zero) - strengthened on reading the change, before the first run against it: 256-bin grids whose first edge is off by the accepted rounding-sized tolerance with samples 5e-8 of a width inside their bins; the same preprocess instance applied to three different batches; moving statistics of every signal riding on a DC level of 40000.
* C05-m7 (`empty_like` gives the mix-columns result the dtype of an int8 state) - the round primitives on int8 states; C12-m7 (class values used as row indices when a declared class was never built) - template matching with one declared class left without building traces, for every declaration order; C17-m7 (MIA window estimated on the raw samples of a Container that has a preprocess) - the last configuration of every C17 attack removes a DC level with a Container preprocess, MIA there with its automatic window; C20-m8 (`check()` touches the very Trace objects `run()` will write) - the user function leaves a note on each trace (another one in the dry run), the output must carry the run's note.  C09-m6 (both variances divided by n1) first turned into exit 2: the scheduler harness *asserted* that its free-running oracle is the Welch statistic - now a VIOLATION; C16-m7 (class counters updated before the kernel that can still refuse the batch) was reported, and float16 trace batches (refused by the compiled kernels at dispatch) were added as a rejection kind.
* C02-m8 (a fractional number of traces per batch from a budget in MB: `ceil(N / 10.9)` batches of 10 traces) - long trace sets (140..1200 traces) under budgets that give 10.83 / 19.83 / 110.08 traces per batch.
* C18-m8 (range frames turned into slices in point-to-point mode) - descending and negative ranges in the combination frame menu; C20-m9 (one row buffer reused for every accepted trace, its tail never cleared) - results whose length differs from trace to trace (6 / 4 / 2 samples) for every accept / reject pattern up to five traces.  C07-m8 (the guess-independent term of DES DeltaRLastRounds memoised on the identity of the ciphertext array) was reported by the reused-array history added after C05-m6, before any change of that kind had been seen for C07.
* Three confirmed candidates were **not kept** because what they change lies outside the property as quantified: a `des.get_master_key` that returns its first candidate instead of `None` when *no* candidate reproduces the pair (C10 speaks about consistent round key / pair inputs only); a `maxabs` computed as max(nanmax, -nanmin), which wraps for *unsigned integer* inputs (C15 quantifies the discriminants over float arrays with NaNs; on the unchanged tree `opposite_min`, and `maxabs`/`abssum` at the most negative value, already wrap for integer inputs - an observation outside every listed property), and a `pinv(..., rcond=L*eps(precision))` for the pooled covariance, which differs from the default only for covariances whose conditioning exceeds the resolution of the working precision, where the float32 Mahalanobis score is not decidable within any tolerance the check could justify.
* C15-m3 and C13-m4 first turned into exit 2 (an unguarded call / memory exhaustion in my harness) - now VIOLATIONs.

'''
import re as _re
_b = sec[sec.index('led to the strengthening'):]
MISSED = len(set(_re.findall(r'C\d\d-m\d', _b)))
sec = sec % (n, WAVES, MISSED)
s=s[:i]+sec+tab+'\n'
open('/verif/DESIGN.md','w').write(s)
print('rows',n)
