#!/venv/bin/python
"""Manage seeded property-breaking changes (detection demonstrations).

  seeded.py verify <src_dir> <name>      confirm a candidate (patch.diff, demo.py, meta.json in src_dir) in a scratch worktree:
                                         demo passes on the clean tree, fails with the patch, stable suite passes with the patch;
                                         on success copy it to /verif/seeded/<name>/ and record what was run in meta.json
  seeded.py run <name> [check args]      apply /verif/seeded/<name>/patch.diff in a scratch worktree and run the property's check
                                         against it (VERIF_REPO), print the tail of the output; never touches /repo's files
  seeded.py runall [--tier quick]        run every kept seeded change against its property's check; print a table
The scratch worktree lives under /tmp/wt/seed-<pid> and is removed afterwards.
"""
import json, os, shutil, subprocess, sys
ROOT = os.path.dirname(os.path.dirname(os.path.abspath(__file__)))
PY = '/venv/bin/python'


def sh(cmd, **kw):
    return subprocess.run(cmd, stdout=subprocess.PIPE, stderr=subprocess.STDOUT, text=True, **kw)


class Scratch:
    def __init__(self):
        self.path = '/tmp/wt/seed-%d' % os.getpid()
    def __enter__(self):
        os.makedirs('/tmp/wt', exist_ok=True)
        r = sh(['git', '-C', '/repo', 'worktree', 'add', '--detach', self.path, 'HEAD'])
        if r.returncode: raise SystemExit(r.stdout)
        return self.path
    def __exit__(self, *a):
        sh(['git', '-C', '/repo', 'worktree', 'remove', '--force', self.path])
        shutil.rmtree(self.path, ignore_errors=True)


def demo(tree, demo_py):
    env = dict(os.environ, PYTHONDONTWRITEBYTECODE='1', PYTHONPATH=tree)
    return sh([PY, demo_py], cwd=tree, env=env, timeout=1800)


def verify(src, name):
    meta = json.load(open(os.path.join(src, 'meta.json')))
    with Scratch() as wt:
        d0 = demo(wt, os.path.join(src, 'demo.py'))
        a = sh(['git', '-C', wt, 'apply', os.path.join(src, 'patch.diff')])
        if a.returncode:
            print('patch does not apply:', a.stdout); return 1
        touched = sh(['git', '-C', wt, 'diff', '--name-only']).stdout.split()
        d1 = demo(wt, os.path.join(src, 'demo.py'))
        st = sh([PY, os.path.join(ROOT, 'tools', 'stable_suite.py'), wt, '-n', '6'])
    ok = d0.returncode == 0 and d1.returncode != 0 and st.returncode == 0 and all(t.startswith('scared/') for t in touched)
    print('%s: demo clean exit=%d, demo patched exit=%d, stable suite exit=%d (%s), touched=%s -> %s'
          % (name, d0.returncode, d1.returncode, st.returncode, st.stdout.strip().splitlines()[0] if st.stdout.strip() else '', touched, 'KEEP' if ok else 'REJECT'))
    if not ok:
        print(d0.stdout[-800:]); print(d1.stdout[-800:]); print(st.stdout[-800:])
        return 1
    dst = os.path.join(ROOT, 'seeded', name)
    os.makedirs(dst, exist_ok=True)
    for f in ('patch.diff', 'demo.py'):
        shutil.copy(os.path.join(src, f), os.path.join(dst, f))
    meta['confirmed'] = {'demo_on_clean_tree_exit': d0.returncode, 'demo_with_patch_exit': d1.returncode,
                         'demo_with_patch_tail': d1.stdout.strip().splitlines()[-1][:300] if d1.stdout.strip() else '',
                         'stable_suite_with_patch': st.stdout.strip().splitlines()[0],
                         'ran': ['git apply patch.diff (scratch worktree)', 'python demo.py (clean, patched)', 'tools/stable_suite.py <worktree> -n 6'],
                         'base_commit': sh(['git', '-C', '/repo', 'rev-parse', 'HEAD']).stdout.strip()}
    json.dump(meta, open(os.path.join(dst, 'meta.json'), 'w'), indent=1)
    return 0


def run(name, extra):
    d = os.path.join(ROOT, 'seeded', name)
    meta = json.load(open(os.path.join(d, 'meta.json')))
    props = extra and [a for a in extra if a.startswith('C') and len(a) == 3] or []
    extra = [a for a in extra if a not in props]
    props = props or [meta['property']]
    out = {}
    with Scratch() as wt:
        a = sh(['git', '-C', wt, 'apply', os.path.join(d, 'patch.diff')])
        if a.returncode:
            print('patch does not apply on current HEAD:', a.stdout); return {'apply': False}
        for p in props:
            r = sh([os.path.join(ROOT, 'check'), p, '--no-evidence'] + extra, env=dict(os.environ, VERIF_REPO=wt))
            lines = r.stdout.strip().splitlines()
            nv = sum(1 for l in lines if l.startswith('VIOLATION'))
            out[p] = (r.returncode, nv)
            print('== %s against %s: exit=%d VIOLATION lines=%d' % (name, p, r.returncode, nv))
            for l in lines[:6] + lines[-2:]: print('   ', l[:300])
    return out


def main():
    cmd = sys.argv[1]
    if cmd == 'verify': return verify(sys.argv[2], sys.argv[3])
    if cmd == 'run': run(sys.argv[2], sys.argv[3:]); return 0
    if cmd in ('runall', 'runsome'):
        # runsome <name>... : run the named changes only and merge their outcome into the existing DETECTION.json
        res = {}
        only = sys.argv[2:] if cmd == 'runsome' else None
        for name in sorted(os.listdir(os.path.join(ROOT, 'seeded'))):
            if only is not None and name not in only: continue
            if os.path.exists(os.path.join(ROOT, 'seeded', name, 'patch.diff')):
                res[name] = run(name, [] if only is not None else sys.argv[2:])
        print('\nSUMMARY'); [print(' ', k, v) for k, v in res.items()]
        # record what the checks reported (exit code, number of VIOLATION lines) for DESIGN.md
        rec = {k: {p: {'exit': v[0], 'violation_lines': v[1]} for p, v in r.items() if isinstance(v, tuple)} for k, r in res.items()}
        dpath = os.path.join(ROOT, 'seeded', 'DETECTION.json')
        if only is not None and os.path.exists(dpath):
            old = json.load(open(dpath))['results']; old.update(rec); rec = dict(sorted(old.items()))
        json.dump({'base_commit': sh(['git', '-C', '/repo', 'rev-parse', '--short', 'HEAD']).stdout.strip(), 'tier': 'quick', 'results': rec},
                  open(os.path.join(ROOT, 'seeded', 'DETECTION.json'), 'w'), indent=1)
        return 0


if __name__ == '__main__':
    sys.exit(main())
