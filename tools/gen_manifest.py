#!/venv/bin/python
"""Regenerate MANIFEST.json from the check modules present under checks/ (keeps the manifest in sync with the code)."""
import importlib, json, os, sys
root = os.path.dirname(os.path.dirname(os.path.abspath(__file__)))
sys.path.insert(0, root)
props = [json.loads(l) for l in open(os.path.join(root, 'properties.jsonl'))]
NOT_YET = json.load(open(os.path.join(root, 'tools', 'not_applicable.json'))) if os.path.exists(os.path.join(root, 'tools', 'not_applicable.json')) else {}
checks = []; na = []
for p in props:
    pid = p['id']
    path = os.path.join(root, 'checks', pid.lower() + '.py')
    if os.path.exists(path) and pid not in NOT_YET:
        m = importlib.import_module('checks.' + pid.lower())
        checks.append({
            'property_id': pid, 'quick_cmd': './check %s --tier quick' % pid, 'thorough_cmd': './check %s --tier thorough' % pid,
            'evidence_file': 'evidence/%s.json' % pid, 'replay_cmd_template': './check %s --replay {path}' % pid,
            'engine': m.ENGINE, 'level_claimed': {'category': m.LEVEL, 'text': m.LEVEL_TEXT, 'design_ref': m.DESIGN_REF},
            'level_note': m.LEVEL_NOTE, 'technique': m.TECHNIQUE})
    else:
        na.append({'property_id': pid, 'reason': NOT_YET.get(pid, 'check not built yet in this revision of /verif (planned, see DESIGN.md section 3); not claimed until it exists')})
man = {
    'version': 1,
    'setup_cmd': './tools/setup.sh',
    'hooks': {'guard': 'SCARED_VERIF', 'enable': 'no source hooks: checks import scared from /repo working tree in fresh worker processes; seams (scripted clock, settrace scheduler, LUT memo) are installed from the harness; SCARED_VERIF=1 is exported but nothing in /repo reads it',
              'baseline_off_cmd': 'cd /repo && /venv/bin/python -m pytest -ra -q -p no:cacheprovider --timeout=900 --continue-on-collection-errors',
              'source_commits': [], 'add_only': True},
    'engines': [
        {'name': 'E1', 'path': 'mc/explorer.py', 'serves_properties': ['C01', 'C02', 'C08', 'C11', 'C14', 'C16', 'C20'], 'kind_free_text': 'explicit-state breadth-first history explorer over real objects with a reference model in lock-step (state digests, deviation bounding)'},
        {'name': 'E2', 'path': 'mc/sched.py', 'serves_properties': ['C09'], 'kind_free_text': 'stateless preemption-bounded schedule explorer (CHESS-style iterative context bounding) for real Python threads under a settrace cooperative scheduler'},
        {'name': 'E3', 'path': 'mc/common.py', 'serves_properties': ['C03', 'C04', 'C05', 'C06', 'C07', 'C10', 'C12', 'C13', 'C15', 'C17', 'C18', 'C19'], 'kind_free_text': 'bounded-exhaustive domain/configuration enumerator (column packing, structure-complete lattices) against reference models'},
    ],
    'checks': checks, 'not_applicable': na,
    'notes': 'Model-checking family: every check enumerates a stated bounded space completely on the real code with a reference model in lock-step; see DESIGN.md. Exit codes: 0 held, 1 unlisted violation (VIOLATION line), 2 infrastructure/vacuity.'}
json.dump(man, open(os.path.join(root, 'MANIFEST.json'), 'w'), indent=1)
print('checks:', [c['property_id'] for c in checks], 'not applicable:', len(na))
