#!/venv/bin/python
"""Run the repository's pinned suite in a tree and compare with BASELINE.json's stable_pass list.

usage: stable_suite.py [tree=/repo] [-n workers]
exit 0: every stable test passed;  exit 1: some stable test did not pass (listed);  exit 2: infrastructure.
The junit file is written to a temporary directory outside /repo and /verif and removed.
"""
import json, os, subprocess, sys, tempfile, shutil
import xml.etree.ElementTree as ET

def main():
    args = sys.argv[1:]
    tree = '/repo'; n = '8'
    i = 0
    while i < len(args):
        if args[i] == '-n': n = args[i+1]; i += 2
        else: tree = args[i]; i += 1
    base = json.load(open('/root/.vp/BASELINE.json'))
    stable = set(base['stable_pass'])
    tmp = tempfile.mkdtemp(prefix='stable_suite_')
    try:
        xml = os.path.join(tmp, 'junit.xml')
        env = dict(os.environ); env.pop('SCARED_VERIF', None); env['PYTHONDONTWRITEBYTECODE'] = '1'
        cmd = ['/venv/bin/python', '-m', 'pytest', '-q', '-p', 'no:cacheprovider', '--timeout=900',
               '--continue-on-collection-errors', '--junitxml=' + xml]
        if n != '0': cmd += ['-n', n, '--dist', 'loadfile']
        p = subprocess.run(cmd, cwd=tree, env=env, stdout=subprocess.PIPE, stderr=subprocess.STDOUT, text=True)
        if not os.path.exists(xml):
            print(p.stdout[-3000:]); print('no junit output'); return 2
        passed = set()
        for tc in ET.parse(xml).getroot().iter('testcase'):
            if not any(c.tag in ('failure', 'error', 'skipped') for c in tc):
                passed.add(tc.get('classname') + '::' + tc.get('name'))
        missing = sorted(stable - passed)
        print('stable tests: %d, passed now: %d, stable not passing: %d, newly passing: %d'
              % (len(stable), len(passed), len(missing), len(passed - stable)))
        for m in missing[:40]: print('  NOT PASSING:', m)
        return 1 if missing else 0
    finally:
        shutil.rmtree(tmp, ignore_errors=True)

if __name__ == '__main__':
    sys.exit(main())
