#!/bin/sh
# Run once after a fresh restore (offline): create directories, self-test the reference models.  No build step:
# scared is pure Python + numba JIT and is imported from /repo's working tree by every check.
cd "$(dirname "$0")/.." || exit 2
mkdir -p evidence replays
PYTHONPATH=/verif /venv/bin/python -B -m mc.refs.selftest || exit 2
echo setup ok
