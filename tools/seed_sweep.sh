#!/bin/sh
# usage: tools/seed_sweep.sh "C01 C16 ..." "1 2 3"  -- run quick checks over several VERIF_SEED values without touching the evidence files
cd "$(dirname "$0")/.." || exit 2
for s in $2; do for c in $1; do VERIF_SEED=$s ./check $c --tier quick --no-evidence 2>&1 | grep -E "^C[0-9]+ tier|VIOLATION|INFRA|VACUITY|fingerprint" | cut -c1-260; done; done
