#!/venv/bin/python
"""Print the markdown table 'seeded change -> what it needs -> which check reports it' from seeded/*/meta.json and seeded/DETECTION.json."""
import json, os, glob
root = os.path.dirname(os.path.dirname(os.path.abspath(__file__)))
det = json.load(open(os.path.join(root, 'seeded', 'DETECTION.json'))) if os.path.exists(os.path.join(root, 'seeded', 'DETECTION.json')) else {'results': {}}
print('| seeded change | touches | needs to manifest (abridged) | reported by (quick tier) |')
print('|---|---|---|---|')
for d in sorted(glob.glob(os.path.join(root, 'seeded', 'C*'))):
    name = os.path.basename(d)
    try:
        m = json.load(open(os.path.join(d, 'meta.json')))
    except Exception:
        continue
    files = ', '.join(os.path.basename(f) for f in m.get('files_touched', []))[:40]
    needs = ' '.join(str(m.get('needs_to_manifest', '')).split())[:170].replace('|', '/')
    r = det['results'].get(name, {})
    rep = ', '.join('%s (exit %d, %d VIOLATION lines)' % (p, v['exit'], v['violation_lines']) for p, v in r.items()) or 'not run'
    print('| %s | %s | %s | %s |' % (name, files, needs, rep))
