#!/opt/veriftools/pyvenv/bin/python
"""Validate MANIFEST.json and every evidence file against the schemas (uses the tooling venv's jsonschema)."""
import json, sys, glob, os
import jsonschema
root = os.path.dirname(os.path.dirname(os.path.abspath(__file__)))
bad = 0
man = json.load(open(os.path.join(root, 'MANIFEST.json')))
try:
    jsonschema.validate(man, json.load(open('/root/.vp/MANIFEST.schema.json'))); print('MANIFEST ok, checks:', len(man['checks']))
except Exception as e:
    print('MANIFEST INVALID', e); bad += 1
es = json.load(open('/root/.vp/EVIDENCE.schema.json'))
for f in sorted(glob.glob(os.path.join(root, 'evidence', '*.json'))):
    try:
        jsonschema.validate(json.load(open(f)), es); print('ok', os.path.basename(f))
    except Exception as e:
        print('INVALID', f, str(e)[:300]); bad += 1
ids = {c['property_id'] for c in man['checks']} | {n['property_id'] for n in man.get('not_applicable', [])}
props = [json.loads(l)['id'] for l in open(os.path.join(root, 'properties.jsonl'))]
print('unaccounted properties:', [p for p in props if p not in ids])
sys.exit(1 if bad else 0)
