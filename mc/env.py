"""Harness seams that own the environment answers of scared (imported inside worker processes only).

* ScriptedClock: replaces the module alias `_time` of scared.distinguishers.partitioned / template, so that the
  production selection code (`argmin(self._timings)`) runs unmodified while the harness decides its outcome.
* KernelRecorder: wraps the two `_accumulate_core_*` static methods of a class and records which one ran; a mismatch
  between the forced and the observed kernel is a loss-of-control error (LostControl -> exit 2).
* forced_updates(): feed batches to a distinguisher under a prescribed kernel sequence.
"""
import numpy as np


class LostControl(Exception):
    pass


class ScriptedClock:
    """process_time() is called twice per accumulation (t0, t1): answers 0.0 then `dur`."""

    def __init__(self):
        self.dur = 0.0
        self._pending = False
        self.calls = 0

    def process_time(self):
        self.calls += 1
        if not self._pending:
            self._pending = True
            return 0.0
        self._pending = False
        return self.dur

    def __getattr__(self, name):          # anything else behaves like the real module
        import time
        return getattr(time, name)


class KernelRecorder:
    def __init__(self, cls):
        self.cls = cls
        self.ran = []
        self._orig = (cls.__dict__['_accumulate_core_1'], cls.__dict__['_accumulate_core_2'])
        o1 = cls._accumulate_core_1; o2 = cls._accumulate_core_2
        rec = self

        def w1(*a):
            rec.ran.append(1); return o1(*a)

        def w2(*a):
            rec.ran.append(2); return o2(*a)
        cls._accumulate_core_1 = staticmethod(w1)
        cls._accumulate_core_2 = staticmethod(w2)

    def restore(self):
        self.cls._accumulate_core_1, self.cls._accumulate_core_2 = self._orig


_INSTALLED = {}


def install_clock(module):
    """module: scared.distinguishers.partitioned or .template -> the ScriptedClock now bound to module._time."""
    if module.__name__ not in _INSTALLED:
        clk = ScriptedClock()
        module._time = clk
        _INSTALLED[module.__name__] = clk
    return _INSTALLED[module.__name__]


def install_recorder(cls):
    key = 'rec:' + cls.__module__ + '.' + cls.__name__
    if key not in _INSTALLED:
        _INSTALLED[key] = KernelRecorder(cls)
    return _INSTALLED[key]


def forced_updates(obj, batches, seq, clock, recorder):
    """Feed `batches` (list of (traces, data)) to `obj.update` so that batch b is accumulated by kernel seq[b] (1 or 2).
    seq[0] must be 1 (a fresh object always starts with kernel 1, as in production).  The choice is made by the
    production argmin over obj._timings; the scripted clock only supplies the measured durations."""
    if seq[0] != 1:
        raise ValueError('the first batch of a fresh object always runs kernel 1')
    tim = [-2.0, -1.0]
    recorder.ran.clear()
    for b, (tr, da) in enumerate(batches):
        cur = int(np.argmin(tim))
        if cur + 1 != seq[b]:
            raise LostControl('model of the selection state diverged: expected kernel %d for batch %d, model says %d' % (seq[b], b, cur + 1))
        nxt = (seq[b + 1] - 1) if b + 1 < len(seq) else cur
        other = tim[1 - cur]
        clock.dur = (other - 1.0) if nxt == cur else (other + 1.0)
        clock._pending = False
        obj.update(tr, da)
        tim[cur] = clock.dur
    if recorder.ran != list(seq[:len(batches)]):
        raise LostControl('forced kernel sequence %s, observed %s' % (list(seq), recorder.ran))
    return obj
