"""E1 - explicit-state history explorer over REAL objects with a reference model in lock-step.

A *system* (duck-typed) supplies

    fresh()                          -> a new real object (initial state)
    model_init()                     -> hashable model state
    menu(mstate)                     -> list of (event, deviation_cost) enabled in that model state, simplest first;
                                        events must be hashable/JSON-able (tuples of str/int)
    apply(obj, event)                -> observation of the REAL call (dict: returned value, exception class, counters ...)
    model_step(mstate, event, obs)   -> (next model state, list of (fingerprint, message)) - the oracle: compares the
                                        observation with what the model expects at exactly this step
    digest(obj)                      -> canonical digest of the complete instance state (mc.common.canon_state)
    terminal(mstate)                 -> True when no event should be taken any more (optional)

A node of the search is an event history; the object of a node is rebuilt by replaying the history on a fresh object
(live objects hold numba dispatchers, threads, open files and do not copy reliably; histories are short).  States are
merged on (model state, digest of the complete object state) - sound because two objects with identical complete
state and identical model state have identical futures.  The frontier is ordered by (deviations, depth), so every state
is expanded with the fewest deviations that reach it and the first counter-example found is the simplest one.

Replay safety: replaying a history must reproduce the digest recorded for its node and the same observations, otherwise
the run aborts with NonDeterminism (the runner turns that into exit 2, never into a VIOLATION).
"""
import heapq


class NonDeterminism(Exception):
    pass


class Explorer:
    def __init__(self, system, max_depth, max_dev, check_replay=True, max_states=200000):
        self.sys = system
        self.max_depth = max_depth
        self.max_dev = max_dev
        self.check_replay = check_replay
        self.max_states = max_states
        self.states = 0
        self.transitions = 0
        self.replayed_events = 0
        self.max_depth_seen = 0
        self.histories = 0            # number of distinct event histories represented by the explored graph (paths from the root)
        self.terminal_histories = 0
        self.violations = []          # (fingerprint, message, history)
        self.capped = False
        self.observations = set()
        self.dev_completed = -1

    def _rebuild(self, history, want_digest=None):
        obj = self.sys.fresh()
        for ev in history:
            self.sys.apply(obj, ev)
            self.replayed_events += 1
        if want_digest is not None and self.check_replay:
            d = self.sys.digest(obj)
            if d != want_digest and not str(d).startswith('unmergeable'):
                raise NonDeterminism('replaying %r gave digest %s, recorded %s' % (history, d, want_digest))
        return obj

    def run(self):
        sysm = self.sys
        root_obj = sysm.fresh()
        m0 = sysm.model_init()
        d0 = sysm.digest(root_obj)
        seen = {(m0, d0): 0}
        edges = []                    # (from node, to node, deviation cost)
        terminal = set()
        nodes = [((), m0, d0, 0)]
        heap = [(0, 0, 0)]            # (deviations, depth, node id)
        self.states = 1
        order = []
        while heap:
            dev, depth, nid = heapq.heappop(heap)
            history, mstate, dig, _ = nodes[nid]
            order.append(nid)
            if hasattr(sysm, 'terminal') and sysm.terminal(mstate):
                terminal.add(nid)
                continue
            if depth >= self.max_depth:
                continue
            for ev, cost in sysm.menu(mstate):
                if dev + cost > self.max_dev:
                    continue
                obj = self._rebuild(history, dig)
                obs = sysm.apply(obj, ev)
                m2, viol = sysm.model_step(mstate, ev, obs)
                self.transitions += 1
                h2 = history + (ev,)
                for fp, msg in viol:
                    self.violations.append((fp, msg, h2))
                if hasattr(sysm, 'obs_key'):
                    self.observations.add(sysm.obs_key(obs))
                d2 = sysm.digest(obj)
                key = (m2, d2)
                if key in seen and not str(d2).startswith('unmergeable'):
                    edges.append((nid, seen[key], cost))
                    continue
                if self.states >= self.max_states:
                    self.capped = True
                    continue
                nid2 = len(nodes)
                nodes.append((h2, m2, d2, dev + cost))
                seen[key] = nid2
                edges.append((nid, nid2, cost))
                self.states += 1
                self.max_depth_seen = max(self.max_depth_seen, depth + 1)
                heapq.heappush(heap, (dev + cost, depth + 1, nid2))
        self.dev_completed = self.max_dev
        self.nodes = nodes
        self.edges = edges
        # number of distinct event histories the explored graph stands for: walks from the root of length <= max_depth
        # with at most max_dev deviations (merged states have identical futures, so every such walk is covered).
        out = {}
        for a, b, c in edges:
            out.setdefault(a, []).append((b, c))
        level = {(0, 0): 1}
        total = 1; term = 1 if 0 in terminal else 0
        for _ in range(self.max_depth):
            nxt = {}
            for (n, dv), cnt in level.items():
                for b, c in out.get(n, ()):
                    if dv + c <= self.max_dev:
                        nxt[(b, dv + c)] = nxt.get((b, dv + c), 0) + cnt
            if not nxt:
                break
            level = nxt
            total += sum(level.values())
            term += sum(cnt for (n, dv), cnt in level.items() if n in terminal)
        self.histories = total
        self.terminal_histories = term
        return self

    def report(self):
        return {'states': self.states, 'transitions': self.transitions, 'max_depth': self.max_depth_seen, 'histories_represented': self.histories,
                'complete_histories': self.terminal_histories, 'deviation_bound_completed': self.dev_completed, 'capped': self.capped,
                'replayed_events': self.replayed_events, 'distinct_observations': len(self.observations)}
