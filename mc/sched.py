"""E2 - stateless, preemption-bounded schedule explorer for REAL Python threads (CHESS-style iterative context bounding).

Controlled threads are ordinary `threading.Thread`s running the real code.  A `sys.settrace` hook delivers an event for
every line (or every call, per file) executed in the traced source files; at each event the thread hands a baton back
to the controller and blocks on its own semaphore, so exactly one controlled thread runs between two scheduling points
and the controller decides which.  For the duration of one execution

  * `Thread.start` is wrapped: a thread started by a controlled thread becomes controlled, gets a deterministic name
    (T0, T1, ... in start order) and `start()` returns only once the child has registered (thread birth never depends
    on OS timing);
  * `Thread.join` is wrapped: waiting is a scheduler state ("blocked until target finished"), so "no enabled thread"
    is reported as deadlock.  Faithful to CPython 3.12: a join on a thread whose `_tstate_lock` is not locked (never
    started, already finished, or released by force) returns at once, as the real one does; a join WITH a timeout is a
    yield point ("may time out now"), after which the scheduler runs the other threads first (fair default schedule);
  * a thread that finished `run()` is only reported finished once the interpreter has really released its
    `_tstate_lock` (the controller waits for that before scheduling anybody else), so `lock.locked()` observed by the
    code under test is a function of the schedule, not of OS timing;
  * the cyclic garbage collector is disabled while controlled threads run and invoked by the (untraced) controller
    between executions: finalising a suspended generator resumes its frame, which would otherwise add a scheduling
    point at a moment chosen by the collector.

A schedule is a list of choice indices into the canonical enabled list (running thread first if still enabled, then by
name).  Choice 0 at a point where the running thread is still enabled = no preemption.  `explore()` is the iterative
context-bounding DFS: run a prefix then choice 0 to completion, branch on every alternative whose preemption count
stays within the bound.  Replaying a prefix must reproduce the recorded enabled sets, otherwise NonDeterminism.
"""
import sys
import threading
import time


class NonDeterminism(Exception):
    pass


class Deadlock(Exception):
    pass


class Execution:
    """One controlled execution of `body()` (run in a controlled 'main' thread) under the schedule `choices`."""

    def __init__(self, choices, line_files=(), call_files=(), horizon=20000):
        self.choices = list(choices)
        self.pos = 0
        self.line_files = set(line_files)
        self.call_files = set(call_files)
        self.sem = {}
        self.state = {}            # name -> ready | blocked | finishing | done
        self.blocked_on = {}
        self._lastline = {}        # frame -> line it is on (see _local)
        self.yielded = set()       # threads that are in a timed wait (see the join wrapper)
        self.strict = set()        # threads waiting in the harness' final drain: only the target's real end releases them
        self.ident = {}
        self.threads = {}          # name -> Thread object (children only)
        self.tlocks = {}
        self.ctrl = threading.Semaphore(0)
        self.log = []              # (enabled tuple, choice, running_still_enabled)
        self.nchildren = 0
        self.horizon = horizon
        self.result = {}
        self.error = None
        self._orig = {}

    # ------------------------------------------------------------------ called from controlled threads
    def me(self):
        return self.ident.get(threading.get_ident())

    def point(self):
        n = self.me()
        if n is None:
            return
        self.ctrl.release()
        self.sem[n].acquire()

    def _finish(self):
        n = self.me()
        self.state[n] = 'finishing'
        self.ctrl.release()

    def _block_until_done(self, target):
        n = self.me()
        lock = self.tlocks.get(target)
        while self.state.get(target) != 'done' and (lock is None or lock.locked()):
            self.state[n] = 'blocked'
            self.blocked_on[n] = target
            self.ctrl.release()
            self.sem[n].acquire()
        self.state[n] = 'ready'

    # ------------------------------------------------------------------ tracing
    def _tracer(self, frame, event, arg):
        fn = frame.f_code.co_filename
        if fn in self.line_files:
            self.point()                     # call event
            return self._local
        if fn in self.call_files:
            self.point()
            return None
        return None

    def _local(self, frame, event, arg):
        # A scheduling point is "this frame moves to a NEW line".  CPython 3.12 may or may not deliver a second 'line' event for the line a
        # frame is already on when a callee returns into the middle of it (it depends on how far the adaptive interpreter has specialised
        # the bytecode, i.e. on how often the code ran before) - counting those would make the number of scheduling points of one and the
        # same schedule drift during an exploration.  (Consequence: a busy loop written on a single line without calls has one point only.)
        if event == 'line':
            if self._lastline.get(frame) != frame.f_lineno:
                self._lastline[frame] = frame.f_lineno
                self.point()
        elif event == 'return':
            self._lastline.pop(frame, None)
        return self._local

    # ------------------------------------------------------------------ patches
    def _install(self):
        ex = self
        T = threading.Thread
        self._orig = {'start': T.start, 'join': T.join}
        orig_start, orig_join = T.start, T.join

        def start(th):
            if ex.me() is None:
                return orig_start(th)
            name = 'T%d' % ex.nchildren
            ex.nchildren += 1
            ex.sem[name] = threading.Semaphore(0)
            ex.state[name] = 'unborn'
            ex.threads[name] = th
            th._verif_name = name
            born = threading.Event()
            real_run = type(th).run.__get__(th)

            def run(*a, **kw):
                ex.ident[threading.get_ident()] = name
                ex.tlocks[name] = th._tstate_lock
                ex.state[name] = 'ready'
                born.set()
                ex.sem[name].acquire()
                sys.settrace(ex._tracer)
                try:
                    return real_run(*a, **kw)
                finally:
                    sys.settrace(None)
                    ex._finish()
            th.run = run
            # (no settrace toggling here: CPython 3.12 implements settrace on top of the process-wide sys.monitoring instrumentation, and
            #  switching it off and on in one thread while others are traced makes the delivery of the next 'call' events timing-dependent;
            #  nothing below runs in a traced file, so there is no scheduling point to suppress anyway)
            try:
                orig_start(th)
                born.wait()
            finally:
                try:
                    del th.run
                except AttributeError:
                    pass

        def join(th, timeout=None):
            name = getattr(th, '_verif_name', None)
            if name is None or ex.me() is None or ex.threads.get(name) is not th:
                return orig_join(th, timeout)
            if timeout is not None:
                # A timed join is a wait that may end at any moment: it is modelled as a yield (a scheduling point after which the scheduler
                # prefers the other threads - switching away from a yielding thread is not a preemption) followed by "joined if the target
                # has finished by now, timed out otherwise".  Polling loops thereby stay finite under the default schedule.
                lock = ex.tlocks.get(name)
                if ex.state.get(name) != 'done' and (lock is None or lock.locked()):
                    ex.yielded.add(ex.me())
                    ex.point()
                if ex.state.get(name) == 'done' or (lock is not None and not lock.locked()):
                    return orig_join(th, timeout)
                return None
            ex._block_until_done(name)
            return orig_join(th, timeout)
        T.start = start
        T.join = join

    def _uninstall(self):
        T = threading.Thread
        T.start = self._orig['start']
        T.join = self._orig['join']

    # ------------------------------------------------------------------ controller
    def run(self, body):
        self.sem['main'] = threading.Semaphore(0)
        self.state['main'] = 'ready'
        ex = self

        def caller():
            ex.ident[threading.get_ident()] = 'main'
            ex.sem['main'].acquire()
            sys.settrace(ex._tracer)
            try:
                body(ex)
            except BaseException as e:            # noqa - the harness body reports through ex.result; this is a harness bug
                ex.error = 'harness body raised %r' % (e,)
            finally:
                sys.settrace(None)
                # drain stragglers cooperatively so the next execution starts from a clean process
                for name in sorted(ex.threads):
                    if ex.state.get(name) not in ('done', 'unborn'):
                        ex.state['main'] = 'ready'
                        n = 'main'
                        while ex.state.get(name) != 'done':
                            ex.state[n] = 'blocked'; ex.blocked_on[n] = name; ex.strict.add(n)
                            ex.ctrl.release(); ex.sem[n].acquire()
                        ex.state[n] = 'ready'
                ex._finish()
        # Own the garbage collector: a failed accumulator keeps its exception (-> traceback -> frames -> the suspended batch generator) in a
        # reference cycle; if the cyclic collector ran at a moment of its own choosing inside a traced thread, closing that generator would
        # resume its frame and produce an extra, timing-dependent scheduling point.  Collection happens here, in the untraced controller.
        import gc
        gc_was_enabled = gc.isenabled()
        gc.disable()
        self._install()
        th = threading.Thread(target=caller, name='verif-main')
        real_start = self._orig['start']
        real_join = self._orig['join']
        try:
            real_start(th)
            self.tlocks['main'] = None
            self.ctrl.release()
            self._loop()
        finally:
            self._uninstall()
            real_join(th, 30)
            gc.collect(1)          # the cycles of one execution are young; a full collection after each of ~10^5 executions would dominate the run time
            if gc_was_enabled:
                gc.enable()
        return self

    def _settle(self):
        """Threads that reported the end of run(): wait until the interpreter has really released their tstate lock."""
        for n, s in list(self.state.items()):
            if s == 'finishing':
                lock = self.tlocks.get(n)
                if n != 'main' and lock is not None:
                    t0 = time.time()
                    while lock.locked():
                        if time.time() - t0 > 20:
                            raise NonDeterminism('thread %s did not exit' % n)
                        time.sleep(0)
                self.state[n] = 'done'

    def _loop(self):
        last = None
        while True:
            self.ctrl.acquire()
            self._settle()
            for n, s in list(self.state.items()):
                if s == 'blocked':
                    tgt = self.blocked_on[n]
                    lock = self.tlocks.get(tgt)
                    if self.state.get(tgt) == 'done' or (n not in self.strict and lock is not None and not lock.locked()):
                        self.state[n] = 'ready'
            en = sorted(n for n, s in self.state.items() if s == 'ready')
            if not en:
                if all(s in ('done', 'unborn') for s in self.state.values()):
                    return
                self.error = 'deadlock: %r' % (self.state,)
                # release everybody so the process can go on; the execution is reported as deadlocked
                raise Deadlock(self.error)
            running_enabled = last in en
            if running_enabled and last in self.yielded and len(en) > 1:
                # the running thread yielded (timed wait): by default the others go first; any other choice at this point (another order,
                # or "the timeout fires at once") is a deviation and is charged like a preemption, otherwise polling loops would make the
                # number of cost-free schedules explode
                en.remove(last); en.append(last)
            elif running_enabled:
                en.remove(last); en.insert(0, last)
            if self.pos < len(self.choices):
                c = self.choices[self.pos]
            else:
                c = 0
            if c >= len(en):
                raise NonDeterminism('choice %d at point %d but only %d enabled (%r)' % (c, self.pos, len(en), en))
            self.pos += 1
            self.log.append((tuple(en), c, running_enabled))
            if len(self.log) > self.horizon:
                raise NonDeterminism('horizon of %d scheduling points exceeded' % self.horizon)
            last = en[c]
            self.yielded.discard(last)
            self.sem[last].release()


def preemptions(log, upto=None):
    return sum(1 for (en, c, run_en) in (log if upto is None else log[:upto]) if run_en and c != 0)


def explore(make_execution, body, bound, check, first_level=None, max_executions=None, stats=None, split_depth=2):
    """Iterative-context-bounding DFS.  make_execution(choices) -> Execution; body(ex) is run in the controlled main thread and
    stores its observation in ex.result; check(ex, choices) -> outcome key (hashable) and may record violations itself.
    first_level: optional (k, j) work sharding - every shard executes the nodes with fewer than `split_depth` deviations (they
    are counted by shard 0 only); the deviations that take a node from split_depth-1 to split_depth deviations are dealt out by
    position: shard j explores those at positions i with i % k == j, and everything below them.
    Returns dict(executions, outcomes{key: count}, max_points, by_preemptions)."""
    stats = stats if stats is not None else {}
    stats.update({'executions': 0, 'outcomes': {}, 'max_points': 0, 'by_preemptions': {}, 'capped': False, 'shared_prefix_executions': 0, 'warmup_executions': 0})
    # Warm-up: the first traced execution(s) of a process take one-time paths (lazy imports, caches, first-use instrumentation) and so show a
    # few extra scheduling points.  Run the default schedule until two consecutive executions give identical logs; only then is a log a
    # valid description of "the" execution of a schedule.  (If that never happens the harness is not deterministic: exit 2.)
    prev = None
    for _ in range(6):
        ex = make_execution([])
        try:
            ex.run(body)
        except Deadlock:
            pass
        stats['warmup_executions'] += 1
        cur = [(en, c) for (en, c, _) in ex.log]
        if cur == prev:
            break
        prev = cur
    else:
        raise NonDeterminism('the default schedule does not stabilise: the harness owns less than all the nondeterminism')
    stack = [([], [])]
    while stack:
        prefix, expect = stack.pop()
        ex = make_execution(prefix)
        try:
            ex.run(body)
        except Deadlock:
            pass
        log = ex.log
        if [c for (_, c, _) in log[:len(prefix)]] != list(prefix):
            raise NonDeterminism('prefix %r not reproduced' % (prefix,))
        # replay safety: the enabled sets met while replaying the prefix must be the ones recorded when the prefix was generated
        if [en for (en, _, _) in log[:len(expect)]] != expect:
            i = next(k for k in range(len(expect)) if k >= len(log) or log[k][0] != expect[k])
            raise NonDeterminism('replaying a prefix of %d choices: enabled set at point %d is %r, recorded %r' % (len(prefix), i, log[i][0] if i < len(log) else None, expect[i]))
        depth = sum(1 for c in prefix if c)
        shared = first_level is not None and depth < split_depth
        count_it = not (shared and first_level[1] != 0)
        if count_it:
            stats['executions'] += 1
            k = check(ex, [c for (_, c, _) in log])
            stats['outcomes'][k] = stats['outcomes'].get(k, 0) + 1
            p = preemptions(log)
            stats['by_preemptions'][p] = stats['by_preemptions'].get(p, 0) + 1
            stats['max_points'] = max(stats['max_points'], len(log))
        else:
            stats['shared_prefix_executions'] += 1
        if max_executions is not None and stats['executions'] >= max_executions:
            stats['capped'] = True
            break
        for i in range(len(prefix), len(log)):
            en, c, run_en = log[i]
            if first_level is not None and depth == split_depth - 1 and i % first_level[0] != first_level[1]:
                continue
            cost = preemptions(log, i)
            for alt in range(1, len(en)):
                if cost + (1 if run_en else 0) <= bound:
                    stack.append(([x[1] for x in log[:i]] + [alt], [x[0] for x in log[:i + 1]]))
    return stats
