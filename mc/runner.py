"""Orchestrator of every check: `./check <Cxx> [--tier quick|thorough] [--replay file] [--jobs n] [--only substr]`.

The parent process never imports scared.  It imports `checks.<cxx>` (which must not import scared at module
level), asks it for the list of shards of the bounded space, runs them on a pool of fresh worker subprocesses
(`mc.worker`, each importing scared from /repo's working tree), aggregates coverage, applies the known-findings
file, writes replay files and the evidence file, prints VIOLATION / KNOWN-FINDING lines and sets the exit code:
0 held on everything explored, 1 unlisted violation, 2 infrastructure problem (vacuity guard, lost control,
reference self-test, worker crash).
"""
import hashlib
import importlib
import json
import os
import subprocess
import sys
import threading
import time

ROOT = os.path.dirname(os.path.dirname(os.path.abspath(__file__)))
REPO = os.environ.get('VERIF_REPO', '/repo')
PY = '/venv/bin/python'


class Infra(Exception):
    pass


def _worker_env(mod):
    env = dict(os.environ)
    env.update({
        'PYTHONHASHSEED': '0', 'OPENBLAS_NUM_THREADS': '1', 'OMP_NUM_THREADS': '1', 'MKL_NUM_THREADS': '1',
        'NUMBA_NUM_THREADS': '1', 'PYTHONDONTWRITEBYTECODE': '1', 'SCARED_VERIF': '1',
        'PYTHONPATH': REPO + os.pathsep + ROOT, 'VERIF_REPO': REPO, 'NUMBA_DISABLE_PERFORMANCE_WARNINGS': '1',
    })
    for k, v in (getattr(mod, 'WORKER_ENV', None) or {}).items():
        if v is None:
            env.pop(k, None)
        else:
            env[k] = v
    return env


class Pool:
    """Persistent worker subprocesses fed from a shared queue (heaviest shard first)."""

    def __init__(self, modname, mod, jobs, ctx):
        self.modname, self.mod, self.jobs, self.ctx = modname, mod, jobs, ctx
        self.lock = threading.Lock()
        self.errors = []

    def run(self, shards):
        order = sorted(range(len(shards)), key=lambda i: -float(shards[i].get('cost', 1)))
        queue = list(order)
        results = [None] * len(shards)
        env = _worker_env(self.mod)

        def serve():
            proc = subprocess.Popen([PY, '-m', 'mc.worker', self.modname], cwd=ROOT, env=env, stdin=subprocess.PIPE,
                                    stdout=subprocess.PIPE, text=True, bufsize=1)
            try:
                while True:
                    with self.lock:
                        if not queue or self.errors:
                            break
                        i = queue.pop(0)
                    t_shard = time.time()
                    proc.stdin.write(json.dumps({'shard': shards[i], 'ctx': self.ctx}) + '\n')
                    proc.stdin.flush()
                    line = proc.stdout.readline()
                    if not line:
                        with self.lock:
                            self.errors.append('worker died on shard %s (exit %s)' % (shards[i].get('name'), proc.poll()))
                        break
                    res = json.loads(line)
                    if not res.get('ok'):
                        with self.lock:
                            self.errors.append('shard %s: %s' % (shards[i].get('name'), res.get('error')))
                        break
                    res['wall_s'] = round(time.time() - t_shard, 2)
                    results[i] = res
            finally:
                try:
                    proc.stdin.close()
                except Exception:
                    pass
                try:
                    proc.wait(timeout=30)
                except Exception:
                    proc.kill()

        threads = [threading.Thread(target=serve) for _ in range(max(1, min(self.jobs, len(shards))))]
        for t in threads: t.start()
        for t in threads: t.join()
        if self.errors:
            raise Infra('; '.join(self.errors[:3]))
        return results


def load_known():
    path = os.path.join(ROOT, 'known_findings.json')
    if not os.path.exists(path):
        return []
    return json.load(open(path))['findings']


def write_replay(prop, fp, info, shard, ctx, mod):
    d = os.path.join(ROOT, 'replays', prop)
    os.makedirs(d, exist_ok=True)
    h = hashlib.sha1(fp.encode()).hexdigest()[:12]
    path = os.path.join(d, h + '.json')
    ex = info['examples'][0] if info['examples'] else {}
    doc = {'property': prop, 'fingerprint': fp, 'count_in_run': info['count'], 'message': ex.get('message'),
           'case': ex.get('case'), 'shard': shard, 'ctx': ctx,
           'how_to_replay': './check %s --replay %s' % (prop, os.path.relpath(path, ROOT)),
           'unit_test': ex.get('unit_test') or getattr(mod, 'UNIT_TEST_HINT', None),
           'more_examples': info['examples'][1:]}
    with open(path, 'w') as f:
        json.dump(doc, f, indent=1, default=str)
    return path


def merge_samples(results, limit=6):
    out = []
    for r in results:
        for s in r.get('samples', []):
            if len(out) < limit:
                out.append(s)
    return out


def main(argv=None):
    argv = list(sys.argv[1:] if argv is None else argv)
    if not argv:
        print('usage: check <Cxx> [--tier quick|thorough] [--replay file] [--jobs n] [--only substr]')
        return 2
    prop = argv.pop(0).upper()
    tier = os.environ.get('VERIF_TIER') or 'quick'
    jobs = int(os.environ.get('VERIF_JOBS', '16'))
    replay = None
    only = None
    no_evidence = False
    while argv:
        a = argv.pop(0)
        if a == '--tier': tier = argv.pop(0)
        elif a == '--replay': replay = argv.pop(0)
        elif a == '--jobs': jobs = int(argv.pop(0))
        elif a == '--only': only = argv.pop(0); no_evidence = True
        elif a == '--no-evidence': no_evidence = True
        else:
            print('unknown argument', a); return 2
    if tier not in ('quick', 'thorough'):
        print('bad tier', tier); return 2
    seed = int(os.environ.get('VERIF_SEED', '0') or 0)
    modname = prop.lower()
    sys.path.insert(0, ROOT)
    mod = importlib.import_module('checks.' + modname)
    ctx = {'tier': tier, 'seed': seed}
    t0 = time.time()
    try:
        if replay:
            doc = json.load(open(replay if os.path.isabs(replay) else os.path.join(ROOT, replay)))
            shards = [dict(doc['shard'], replay_case=doc.get('case'), replay_fp=doc['fingerprint'])]
            ctx = doc.get('ctx', ctx)
            no_evidence = True
        else:
            shards = mod.shards(tier, seed)
            if only:
                shards = [s for s in shards if only in s.get('name', '')]
        if not shards:
            raise Infra('no shards')
        results = Pool(modname, mod, jobs, ctx).run(shards)
    except Infra as e:
        print('INFRASTRUCTURE-ERROR property=%s %s' % (prop, e))
        return 2
    wall = time.time() - t0

    # aggregate
    viol = {}
    for sh, r in zip(shards, results):
        for fp, info in r.get('violations', {}).items():
            v = viol.setdefault(fp, {'count': 0, 'examples': [], 'shard': sh})
            v['count'] += info['count']
            v['examples'] += info['examples'][:max(0, 3 - len(v['examples']))]
    if replay:
        want = shards[0]['replay_fp']
        viol = {fp: v for fp, v in viol.items() if fp == want} or viol

    agg = {k: sum(int(r.get(k, 0)) for r in results) for k in ('evaluations', 'distinct_nontrivial', 'states', 'transitions', 'traces_validated_against_impl')}
    guards = []
    for sh, r in zip(shards, results):
        for g in r.get('guard_failures', []):
            guards.append('%s: %s' % (sh.get('name'), g))
    extra = {}
    if hasattr(mod, 'finalize') and not replay and not only:
        try:
            extra = mod.finalize(shards, results, tier, seed) or {}
        except Infra as e:
            guards.append(str(e))
        guards += extra.pop('guard_failures', [])

    known = load_known()
    known_fp = {(k['property'], k['fingerprint']): k for k in known if k.get('status') == 'known'}
    unlisted = 0
    for fp in sorted(viol):
        info = viol[fp]
        path = write_replay(prop, fp, info, info['shard'], ctx, mod)
        msg = (info['examples'][0].get('message') if info['examples'] else '') or ''
        if (prop, fp) in known_fp:
            print('KNOWN-FINDING: property=%s %s [%s] (%d cases this run; replay=%s)' % (prop, known_fp[(prop, fp)]['what'], fp, info['count'], path))
        else:
            unlisted += 1
            print('VIOLATION property=%s replay=%s' % (prop, path))
            print('  fingerprint=%s cases=%d %s' % (fp, info['count'], msg[:600]))

    max_err = {}
    for r in results:
        for k, v in (r.get('max_err') or {}).items():
            if v is not None and (k not in max_err or v > max_err[k]):
                max_err[k] = v
    notes = {}
    for r in results:
        for k, v in (r.get('counters') or {}).items():
            notes[k] = notes.get(k, 0) + v
    coverage = dict(agg)
    coverage.update({
        'rule': getattr(mod, 'RULE', ''), 'samples': merge_samples(results) or [s.get('name') for s in shards[:3]],
        'exhaustive': bool(all(r.get('exhaustive', True) for r in results)),
        'bound': (mod.bound(tier) if hasattr(mod, 'bound') else None), 'shards': len(shards),
        'max_observed_error': max_err, 'counters': notes,
        'distinct_outcomes': sum(int(r.get('distinct_outcomes', 0)) for r in results),
        'caps_hit': sorted({c for r in results for c in r.get('caps_hit', [])}),
        'known_findings_reported': sorted(fp for fp in viol if (prop, fp) in known_fp),
        'trusted_base': getattr(mod, 'TRUSTED', []),
    })
    coverage.update(extra)
    coverage['states'] = max(1, coverage.get('states', 0)) if coverage.get('states', 0) else coverage.get('states', 0)
    evidence = {'property_id': prop, 'tier': tier, 'seed': seed, 'level': getattr(mod, 'LEVEL', 'model_checking'),
                'coverage': coverage, 'assumptions': getattr(mod, 'ASSUMPTIONS', []), 'wall_s': round(wall, 2),
                'violations': unlisted}
    if not no_evidence:
        os.makedirs(os.path.join(ROOT, 'evidence'), exist_ok=True)
        with open(os.path.join(ROOT, 'evidence', prop + '.json'), 'w') as f:
            json.dump(evidence, f, indent=1, default=str)
    print('%s tier=%s seed=%d shards=%d evaluations=%d distinct_nontrivial=%d states=%d transitions=%d violations=%d known=%d wall=%.1fs'
          % (prop, tier, seed, len(shards), agg['evaluations'], agg['distinct_nontrivial'], agg['states'], agg['transitions'],
             unlisted, len(viol) - unlisted, wall))
    if os.environ.get('VERIF_TIMING'):
        for w, nme in sorted(((r.get('wall_s', 0), sh.get('name')) for sh, r in zip(shards, results)), reverse=True)[:8]:
            print('  slow shard %-40s %.1fs' % (nme, w))
    if unlisted:
        return 1
    if guards:
        for g in guards[:10]:
            print('VACUITY/INFRASTRUCTURE-GUARD property=%s %s' % (prop, g))
        return 2
    return 0


if __name__ == '__main__':
    sys.exit(main())
