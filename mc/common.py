"""Helpers shared by the check modules (imported inside worker processes only)."""
import hashlib
import itertools
import numpy as np

TOL = {'float32': 2.0 ** -12, 'float64': 2.0 ** -36}


class Collector:
    """Counts cases and gathers violations grouped by fingerprint (a few examples each)."""

    def __init__(self, keep=3):
        self.evaluations = 0
        self.nontrivial = 0
        self.states = 0
        self.transitions = 0
        self.validated = 0
        self.viol = {}
        self.samples = []
        self.max_err = {}
        self.counters = {}
        self.guard_failures = []
        self.caps_hit = []
        self.outcomes = set()
        self.keep = keep
        self.exhaustive = True

    def violation(self, fp, message, case=None, unit_test=None):
        v = self.viol.setdefault(fp, {'count': 0, 'examples': []})
        v['count'] += 1
        if len(v['examples']) < self.keep:
            v['examples'].append({'message': message, 'case': case, 'unit_test': unit_test})

    def violations_n(self, fp, n, message, case=None, unit_test=None):
        if n <= 0:
            return
        v = self.viol.setdefault(fp, {'count': 0, 'examples': []})
        v['count'] += int(n)
        if len(v['examples']) < self.keep:
            v['examples'].append({'message': message, 'case': case, 'unit_test': unit_test})

    def sample(self, s, limit=3):
        if len(self.samples) < limit:
            self.samples.append(s)

    def err(self, key, value):
        if value is None:
            return
        value = float(value)
        if value != value:
            return
        if key not in self.max_err or value > self.max_err[key]:
            self.max_err[key] = value

    def count(self, key, n=1):
        self.counters[key] = self.counters.get(key, 0) + int(n)

    def guard(self, ok, text):
        if not ok:
            self.guard_failures.append(text)

    def result(self, **extra):
        r = {'evaluations': int(self.evaluations), 'distinct_nontrivial': int(self.nontrivial), 'states': int(self.states),
             'transitions': int(self.transitions), 'traces_validated_against_impl': int(self.validated or self.evaluations),
             'violations': self.viol, 'samples': self.samples, 'max_err': self.max_err, 'counters': self.counters,
             'guard_failures': self.guard_failures, 'caps_hit': self.caps_hit, 'distinct_outcomes': len(self.outcomes),
             'exhaustive': self.exhaustive}
        r.update(extra)
        return r


def all_columns(alphabet, n, dtype=None):
    """All |A|^n columns over the alphabet as an (n, |A|^n) array, first row varying slowest."""
    a = np.array(list(itertools.product(alphabet, repeat=n))).T
    return a.astype(dtype) if dtype is not None else a


def compare(got, ref, defined, tol, floor=1.0):
    """Element-wise oracle.  `ref` float64 array, `defined` bool array.  Returns dict of masks/counts:
    nan_mismatch: defined entries that are not finite, or undefined entries that are not NaN; value_bad: defined
    finite entries outside tolerance; max_err: largest relative error (w.r.t. max(|ref|, floor)) among accepted."""
    got = np.asarray(got, dtype='float64')
    ref = np.asarray(ref, dtype='float64')
    defined = np.asarray(defined, dtype=bool)
    if got.shape != ref.shape:
        return {'shape': (got.shape, ref.shape)}
    isn = np.isnan(got)
    isinf = np.isinf(got)
    undefined_bad = (~defined) & ~isn
    defined_bad = defined & (isn | isinf)
    with np.errstate(all='ignore'):
        scale = np.maximum(np.abs(ref), floor)
        rel = np.abs(got - ref) / scale
    rel = np.where(defined & ~isn & ~isinf, rel, 0.0)
    value_bad = rel > tol
    return {'undefined_bad': undefined_bad, 'defined_bad': defined_bad, 'value_bad': value_bad,
            'max_err': float(rel[~value_bad].max()) if rel.size and (~value_bad).any() else 0.0, 'rel': rel}


def first_index(mask):
    idx = np.argwhere(mask)
    return tuple(int(i) for i in idx[0]) if len(idx) else None


def digest(*arrays):
    h = hashlib.sha1()
    for a in arrays:
        a = np.ascontiguousarray(a)
        h.update(str(a.dtype).encode()); h.update(str(a.shape).encode()); h.update(a.tobytes())
    return h.hexdigest()


def canon_state(obj, skip=(), deep=()):
    """Canonical digest of the complete instance state of a scared object (E1).  Attributes of unknown type make
    the state unmergeable (returns a unique token).  Attributes named in `deep` hold scared objects with history-dependent
    state of their own (e.g. the build analysis of a template attack) and are digested recursively."""
    h = hashlib.sha1()
    for k in sorted(vars(obj)):
        if k in skip:
            continue
        v = vars(obj)[k]
        h.update(k.encode())
        if k in deep and hasattr(v, '__dict__'):
            sub = canon_state(v, skip=skip)
            if sub.startswith('unmergeable'):
                return 'unmergeable-%d' % id(obj)
            h.update(sub.encode())
        elif isinstance(v, np.ndarray):
            h.update(str(v.dtype).encode()); h.update(str(v.shape).encode()); h.update(np.ascontiguousarray(v).tobytes())
        elif isinstance(v, (int, float, str, bool, type(None), tuple, np.generic, np.dtype, range)):
            h.update(repr(v).encode())
        elif isinstance(v, (list,)) and all(isinstance(e, (int, float, str, bool, type(None), np.generic)) for e in v):
            h.update(repr(v).encode())
        elif callable(v) or type(v).__module__.startswith(('numba', 'scared', 'logging', 'checks', 'mc', 'estraces')):
            h.update(type(v).__name__.encode())       # functions / models / selection functions: configuration, not history
        else:
            return 'unmergeable-%d' % id(obj)
    return h.hexdigest()


# ---------------------------------------------------------------------------------------------------------
# harness seams (see DESIGN.md section 2)

_LUT_CACHE = {}


def install_lut_memo():
    """Memoise scared's `_define_lut_func` (a pure factory that JIT-compiles one ufunc per distinguisher object)."""
    from scared.distinguishers import partitioned as P
    if getattr(P._define_lut_func, '_verif_memo', False):
        return
    orig = P._define_lut_func

    def memo(partitions):
        a = np.asarray(partitions)
        k = (str(a.dtype), a.tobytes())
        if k not in _LUT_CACHE:
            _LUT_CACHE[k] = orig(partitions)
        return _LUT_CACHE[k]
    memo._verif_memo = True
    memo._orig = orig
    P._define_lut_func = memo
    try:
        from scared.distinguishers import mia as M
        if hasattr(M, '_define_lut_func'):
            M._define_lut_func = memo
    except Exception:
        pass
    try:
        from scared.distinguishers import template as T
        if hasattr(T, '_define_lut_func'):
            T._define_lut_func = memo
    except Exception:
        pass


def compositions(n):
    """All ordered partitions of range(n) into consecutive non-empty batches, as lists of (lo, hi)."""
    for mask in range(2 ** (n - 1)):
        cuts = [0] + [i + 1 for i in range(n - 1) if mask >> i & 1] + [n]
        yield list(zip(cuts[:-1], cuts[1:]))


def rng_for(seed, *salt):
    h = hashlib.sha1(repr((seed,) + salt).encode()).digest()
    return np.random.RandomState(int.from_bytes(h[:4], 'little'))
