"""Worker subprocess: imports scared from the working tree (PYTHONPATH set by the runner) and serves shards."""
import importlib
import json
import os
import sys
import traceback


def _default(o):
    try:
        import numpy as np
        if isinstance(o, np.ndarray): return o.tolist()
        if isinstance(o, np.generic): return o.item()
    except Exception:
        pass
    if isinstance(o, (set, frozenset, tuple)): return list(o)
    return repr(o)


def main():
    sys.dont_write_bytecode = True
    modname = sys.argv[1]
    out = os.fdopen(os.dup(1), 'w')
    os.dup2(2, 1)                      # anything the library prints goes to stderr, the protocol stays clean
    sys.stdout = sys.stderr
    import warnings
    warnings.simplefilter('ignore')
    try:
        import numpy as np
        np.seterr(all='ignore')
    except Exception:
        pass
    mod = importlib.import_module('checks.' + modname)
    for line in sys.stdin:
        req = json.loads(line)
        try:
            res = mod.run_shard(req['shard'], req['ctx'])
            res['ok'] = True
        except BaseException:
            res = {'ok': False, 'error': traceback.format_exc()[-4000:]}
        out.write(json.dumps(res, default=_default) + '\n')
        out.flush()


if __name__ == '__main__':
    main()
