"""Exact references for the first/second-order statistics (C01, C03, C04, C09, C11, C12, C16).

Integer-valued inputs: sufficient statistics are computed in int64 (exact), the statistic is evaluated once in
float64 from exact integers, and definedness is decided exactly (integer comparison with zero).
Dyadic inputs are scaled to integers by the caller.
"""
from fractions import Fraction as F
import numpy as np


def pearson_ref(X, Y):
    """X (n, S) ints, Y (n, W) ints -> (ref (W, S) float64, defined (W, S) bool)."""
    X = np.asarray(X).astype('int64'); Y = np.asarray(Y).astype('int64')
    n = X.shape[0]
    sx = X.sum(0); sy = Y.sum(0); sxx = (X * X).sum(0); syy = (Y * Y).sum(0); sxy = Y.T @ X
    num = n * sxy - np.outer(sy, sx)
    dx = n * sxx - sx * sx; dy = n * syy - sy * sy
    prod = np.outer(dy, dx)
    defined = prod > 0
    den = np.sqrt(np.where(defined, prod, 1).astype('float64'))
    return np.where(defined, num / den, np.nan), defined


def dpa_ref(X, B):
    """X (n, S) ints, B (n, W) in {0,1} -> (ref (W, S), defined (W, S))."""
    X = np.asarray(X).astype('int64'); B = np.asarray(B).astype('int64')
    n = X.shape[0]
    n1 = B.sum(0); n0 = n - n1
    s1 = B.T @ X; s0 = (1 - B).T @ X
    defined = np.repeat(((n1 > 0) & (n0 > 0))[:, None], X.shape[1], axis=1)
    with np.errstate(all='ignore'):
        r = s1 / np.where(n1 == 0, 1, n1)[:, None] - s0 / np.where(n0 == 0, 1, n0)[:, None]
    return np.where(defined, r, np.nan), defined


def partition_stats(x, y, classes):
    """Value-keyed exact per-class statistics for one (sample column x, word column y): dict class -> (n, sum, sumsq)."""
    g = {}
    cs = set(int(c) for c in classes)
    for xi, yi in zip(x, y):
        yi = int(yi)
        if yi in cs:
            n, s, q = g.get(yi, (0, F(0), F(0)))
            xi = F(xi)
            g[yi] = (n + 1, s + xi, q + xi * xi)
    return g


def anova_nicv_snr_from_groups(g):
    """-> (anova, nicv, snr) as Fractions or None where undefined.  g: class -> (n, sum, sumsq), non-empty classes only."""
    n = sum(v[0] for v in g.values()); k = len(g)
    if n == 0:
        return None, None, None
    tot = sum(v[1] for v in g.values()); m = tot / n
    means = {c: v[1] / v[0] for c, v in g.items()}
    ssb = sum(v[0] * (means[c] - m) ** 2 for c, v in g.items())
    ssw = sum(v[2] - v[0] * means[c] ** 2 for c, v in g.items())
    anova = None if (k - 1 == 0 or n - k == 0 or ssw == 0) else (ssb / (k - 1)) / (ssw / (n - k))
    tv = sum(v[2] for v in g.values()) / n - m * m
    nicv = None if tv == 0 else (ssb / n) / tv
    num = sum((means[c] - m) ** 2 for c in g) / k
    den = sum(v[2] / v[0] - means[c] ** 2 for c, v in g.items()) / k
    snr = None if den == 0 else num / den
    return anova, nicv, snr


def partitioned_ref_matrix(X, Y, classes, which):
    """Vectorised exact reference for packed columns.  X (n,S) ints, Y (n,W) ints, classes list of ints.
    which in {'anova','nicv','snr'} -> (ref (W,S) float64, defined (W,S) bool).  Integer arithmetic in int64 using
    common denominators; evaluated in float64 once.  (Cross-checked against the Fraction version at start-up.)"""
    X = np.asarray(X).astype('int64'); Y = np.asarray(Y).astype('int64')
    n_, S = X.shape; W = Y.shape[1]
    cl = sorted(set(int(c) for c in classes))
    K = len(cl)
    # per class: counts (W,), sums (W,S), sumsq (W,S)
    cnt = np.zeros((K, W), 'int64'); sm = np.zeros((K, W, S), 'int64'); sq = np.zeros((K, W, S), 'int64')
    XX = X * X
    for i, c in enumerate(cl):
        M = (Y == c).astype('int64')          # (n, W)
        cnt[i] = M.sum(0); sm[i] = M.T @ X; sq[i] = M.T @ XX
    n = cnt.sum(0)                            # (W,)
    k = (cnt > 0).sum(0)                      # (W,)
    tot = sm.sum(0).astype('float64'); totsq = sq.sum(0).astype('float64')
    nz = cnt > 0
    cntf = np.where(nz, cnt, 1).astype('float64')[:, :, None]
    nf = np.where(n > 0, n, 1).astype('float64')[:, None]
    kf = np.where(k > 0, k, 1).astype('float64')[:, None]
    smf = sm.astype('float64'); sqf = sq.astype('float64')
    means = smf / cntf
    m = tot / nf
    # exact definedness via integers: ssw == 0  <=> for every class n_i*sumsq_i - sum_i^2 == 0
    cls_var_int = cnt[:, :, None] * sq - sm * sm           # n_i^2 * var_i  (>= 0, exact)
    ssw_zero = (cls_var_int == 0).all(axis=0)
    tv_int = n[:, None] * sq.sum(0) - sm.sum(0) ** 2       # n^2 * total var
    ssb = (nz[:, :, None] * cntf * (means - m[None]) ** 2).sum(0)
    ssw = (nz[:, :, None] * (sqf - cntf * means ** 2)).sum(0)
    has = (n > 0)[:, None]
    if which == 'anova':
        defined = has & ((k - 1) > 0)[:, None] & ((n - k) > 0)[:, None] & ~ssw_zero
        with np.errstate(all='ignore'):
            ref = (ssb / np.where(k > 1, k - 1, 1)[:, None]) / (ssw / np.where(n - k > 0, n - k, 1)[:, None])
    elif which == 'nicv':
        defined = has & (tv_int != 0)
        with np.errstate(all='ignore'):
            ref = (ssb / nf) / (totsq / nf - m * m)
    elif which == 'snr':
        defined = has & ~ssw_zero
        with np.errstate(all='ignore'):
            num = (nz[:, :, None] * (means - m[None]) ** 2).sum(0) / kf
            den = (nz[:, :, None] * (sqf / cntf - means ** 2)).sum(0) / kf
            ref = num / den
    else:
        raise ValueError(which)
    defined = np.broadcast_to(defined, (W, S)).copy()
    return np.where(defined, ref, np.nan), defined


def welch_ref(A, B):
    """Exact-integer Welch t with population variances.  A (n1,S), B (n2,S) ints -> (ref (S,), defined (S,))."""
    A = np.asarray(A).astype('int64'); B = np.asarray(B).astype('int64')
    n1, n2 = A.shape[0], B.shape[0]
    s1 = A.sum(0); s2 = B.sum(0); q1 = (A * A).sum(0); q2 = (B * B).sum(0)
    v1i = n1 * q1 - s1 * s1; v2i = n2 * q2 - s2 * s2      # n^2 var
    # var1/n1 + var2/n2 = v1i/n1^3 + v2i/n2^3
    den_int = v1i * n2 ** 3 + v2i * n1 ** 3
    defined = den_int > 0
    with np.errstate(all='ignore'):
        ref = (s1 / n1 - s2 / n2) / np.sqrt(v1i / float(n1) ** 3 + v2i / float(n2) ** 3)
    return np.where(defined, ref, np.nan), defined


def selftest():
    import itertools, math, statistics
    rng = np.random.RandomState(12345)
    X = rng.randint(0, 6, (7, 5)); Y = rng.randint(0, 4, (7, 3))
    r, d = pearson_ref(X, Y)
    for w in range(3):
        for s in range(5):
            if d[w, s]:
                e = statistics.correlation([float(v) for v in X[:, s]], [float(v) for v in Y[:, w]])
                assert abs(r[w, s] - e) < 1e-12, (r[w, s], e)
    B = (Y & 1)
    r, d = dpa_ref(X, B)
    for w in range(3):
        one = [float(X[i, 0]) for i in range(7) if B[i, w] == 1]; zero = [float(X[i, 0]) for i in range(7) if B[i, w] == 0]
        if one and zero:
            assert abs(r[w, 0] - (sum(one) / len(one) - sum(zero) / len(zero))) < 1e-12
    # vectorised partitioned reference vs the Fraction definition, including undeclared values and empty classes
    Xs = np.array(list(itertools.product([0, 1, 5], repeat=4))).T
    Ys = np.array(list(itertools.product([0, 2, 7], repeat=4))).T
    for classes in ([0, 2], [0, 2, 7, 9], [7]):
        for j, which in enumerate(('anova', 'nicv', 'snr')):
            ref, de = partitioned_ref_matrix(Xs, Ys, classes, which)
            for w in range(0, Ys.shape[1], 3):
                for s in range(0, Xs.shape[1], 5):
                    e = anova_nicv_snr_from_groups(partition_stats(Xs[:, s], Ys[:, w], classes))[j]
                    assert (e is None) == (not de[w, s]), (which, classes, Xs[:, s], Ys[:, w], e, de[w, s])
                    if e is not None:
                        assert abs(ref[w, s] - float(e)) <= 1e-12 * max(1, abs(float(e))), (which, ref[w, s], float(e))
    A = rng.randint(0, 9, (5, 4)); Bm = rng.randint(0, 9, (3, 4))
    r, d = welch_ref(A, Bm)
    for s in range(4):
        a = [float(v) for v in A[:, s]]; b = [float(v) for v in Bm[:, s]]
        va = statistics.pvariance(a); vb = statistics.pvariance(b)
        if va / 5 + vb / 3 > 0:
            assert abs(r[s] - (statistics.mean(a) - statistics.mean(b)) / math.sqrt(va / 5 + vb / 3)) < 1e-12
    return True
