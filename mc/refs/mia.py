"""Reference for MIA: mutual information (nats) between the histogram bin of a sample and the class of a word.

Bin of a value x over edges e_0 < ... < e_nb (uniform): floor((x - e_0) * nb / (e_nb - e_0)) computed in exact rational
arithmetic, the last edge belongs to the last bin, values outside [e_0, e_nb] are discarded.  Probabilities are count
ratios over the in-range, declared-class samples.  MI = sum_{b,v} p(b,v) log(p(b,v) / (p(b) p(v))), 0 log 0 = 0.
"""
from fractions import Fraction as F
import math
import numpy as np


def bin_of(x, edges):
    e0, eL = F(edges[0]), F(edges[-1]); nb = len(edges) - 1
    x = F(x)
    if x < e0 or x > eL: return -1
    if x == eL: return nb - 1
    return int(math.floor((x - e0) * nb / (eL - e0)))


def mi_scalar(xs, vs, edges, classes):
    """Plain-Python definition for one (sample column, word column)."""
    cs = set(int(c) for c in classes); cnt = {}
    for x, v in zip(xs, vs):
        b = bin_of(x, edges)
        if b < 0 or int(v) not in cs: continue
        cnt[(b, int(v))] = cnt.get((b, int(v)), 0) + 1
    n = sum(cnt.values())
    if n == 0: return None
    pb = {}; pv = {}
    for (b, v), c in cnt.items(): pb[b] = pb.get(b, 0) + c; pv[v] = pv.get(v, 0) + c
    hb = -sum(c / n * math.log(c / n) for c in pb.values())
    hbv = -sum(c / n * math.log(c / pv[v]) for (b, v), c in cnt.items())
    return hb - hbv


def mi_matrix(X, Y, edges, classes, values=None):
    """X (n,S) numbers (exactly representable), Y (n,W) ints -> (ref (W,S), defined (W,S), in_range_counts (W,S))."""
    X = np.asarray(X); Y = np.asarray(Y)
    n, S = X.shape; W = Y.shape[1]
    nb = len(edges) - 1
    uniq = np.unique(X)
    bmap = {float(u): bin_of(F(float(u)), edges) for u in uniq}
    Bidx = np.vectorize(lambda u: bmap[float(u)])(X).astype(int)            # (n,S) bin or -1
    cl = sorted(set(int(c) for c in classes))
    Bo = np.stack([(Bidx == b) for b in range(nb)], axis=-1).astype('int64')        # (n,S,nb)
    Vo = np.stack([(Y == c) for c in cl], axis=-1).astype('int64')                  # (n,W,k)
    cnt = np.einsum('nsb,nwv->wsbv', Bo, Vo).astype('float64')                      # (W,S,nb,k)
    tot = cnt.sum(axis=(2, 3))
    cb = cnt.sum(axis=3, keepdims=True); cv = cnt.sum(axis=2, keepdims=True)
    with np.errstate(all='ignore'):
        term = cnt / tot[:, :, None, None] * np.log(cnt * tot[:, :, None, None] / (cb * cv))
    term = np.where(cnt > 0, term, 0.0)
    ref = term.sum(axis=(2, 3))
    defined = tot > 0
    return np.where(defined, ref, np.nan), defined, tot


def selftest():
    import itertools
    edges = [0, 4, 8, 12]
    al = [-1, 0, 2, 4, 8, 11, 12, 13]
    X = np.array(list(itertools.product(al, repeat=3))).T; Y = np.array(list(itertools.product([0, 1, 5], repeat=3))).T
    ref, de, tot = mi_matrix(X, Y, edges, [0, 1])
    for w in range(0, Y.shape[1], 2):
        for s in range(0, X.shape[1], 11):
            e = mi_scalar(X[:, s], Y[:, w], edges, [0, 1])
            assert (e is None) == (not de[w, s])
            if e is not None: assert abs(e - ref[w, s]) < 1e-12, (e, ref[w, s])
    assert bin_of(3, [0, 3, 6, 9]) == 1 and bin_of(9, [0, 3, 6, 9]) == 2 and bin_of(F(1, 2), [0, .5, 1]) == 1 and bin_of(-1, [0, 1]) == -1
    # independence -> 0, perfect dependence with 2 equiprobable classes -> log 2
    assert abs(mi_scalar([1, 1, 5, 5], [0, 1, 0, 1], edges, [0, 1])) < 1e-15
    assert abs(mi_scalar([1, 1, 5, 5], [0, 0, 1, 1], edges, [0, 1]) - math.log(2)) < 1e-15
    return True
