"""FIPS-197 reference model.  GF(2^8) arithmetic is computed (shift/reduce, a^254 inversion, affine map); no table is
copied from anywhere.  Two forms: a plain-Python list version (the transcription of the standard, used for the
self-test against the FIPS vectors and pycryptodome) and a numpy version (same arithmetic, vectorised over
blocks/keys) validated against the list version at start-up and used for the big sweeps.

State layout: flat 16 bytes, byte i = row i%4, column i//4 (FIPS input order).  Slot layout of the stop points is
scared's documented one: encryption round 0 = [id, id, id, AddRoundKey], rounds 1..Nr-1 = [SubBytes, ShiftRows,
MixColumns, AddRoundKey], round Nr = [SubBytes, ShiftRows, id, AddRoundKey]; decryption round r = [AddRoundKey,
InvMixColumns (id for r=0 and r=Nr), InvShiftRows (id for r=Nr), InvSubBytes (id for r=Nr)].
"""
import numpy as np


def xtime(a):
    a <<= 1
    return (a ^ 0x11B) & 0xFF if a & 0x100 else a


def gmul(a, b):
    r = 0
    while b:
        if b & 1: r ^= a
        a = xtime(a); b >>= 1
    return r


def ginv(a):
    if a == 0: return 0
    r = 1
    for _ in range(254): r = gmul(r, a)
    return r


def _affine(x):
    r = 0
    for i in range(8):
        bit = (x >> i ^ x >> ((i + 4) % 8) ^ x >> ((i + 5) % 8) ^ x >> ((i + 6) % 8) ^ x >> ((i + 7) % 8) ^ 0x63 >> i) & 1
        r |= bit << i
    return r


SBOX = [_affine(ginv(x)) for x in range(256)]
INV_SBOX = [0] * 256
for _i, _s in enumerate(SBOX): INV_SBOX[_s] = _i


def sub_bytes(s): return [SBOX[b] for b in s]
def inv_sub_bytes(s): return [INV_SBOX[b] for b in s]
def shift_rows(s): return [s[(4 * ((c + r) % 4)) + r] for c in range(4) for r in range(4)]
def inv_shift_rows(s): return [s[(4 * ((c - r) % 4)) + r] for c in range(4) for r in range(4)]
def _mix(col, m): return [gmul(col[0], m[(0 - r) % 4]) ^ gmul(col[1], m[(1 - r) % 4]) ^ gmul(col[2], m[(2 - r) % 4]) ^ gmul(col[3], m[(3 - r) % 4]) for r in range(4)]
def mix_column(col): return _mix(col, [2, 3, 1, 1])
def inv_mix_column(col): return _mix(col, [14, 11, 13, 9])
def mix_columns(s): return [b for c in range(4) for b in mix_column(s[4 * c:4 * c + 4])]
def inv_mix_columns(s): return [b for c in range(4) for b in inv_mix_column(s[4 * c:4 * c + 4])]
def xor(a, b): return [x ^ y for x, y in zip(a, b)]


def expand(key):
    """FIPS-197 5.2 -> list of 4-byte words w[0 .. 4(Nr+1))."""
    nk = len(key) // 4; nr = nk + 6
    w = [list(key[4 * i:4 * i + 4]) for i in range(nk)]
    rc = 1
    for i in range(nk, 4 * (nr + 1)):
        t = list(w[i - 1])
        if i % nk == 0:
            t = t[1:] + t[:1]; t = [SBOX[b] for b in t]; t[0] ^= rc; rc = xtime(rc)
        elif nk > 6 and i % nk == 4:
            t = [SBOX[b] for b in t]
        w.append(xor(w[i - nk], t))
    return w


def round_keys(key):
    w = expand(key)
    return [sum(w[4 * r:4 * r + 4], []) for r in range(len(w) // 4)]


def enc_trace(pt, key):
    rk = round_keys(key); nr = len(rk) - 1; st = {}; s = list(pt)
    for j in range(3): st[(0, j)] = list(s)
    s = xor(s, rk[0]); st[(0, 3)] = list(s)
    for r in range(1, nr + 1):
        s = sub_bytes(s); st[(r, 0)] = list(s)
        s = shift_rows(s); st[(r, 1)] = list(s)
        if r < nr: s = mix_columns(s)
        st[(r, 2)] = list(s)
        s = xor(s, rk[r]); st[(r, 3)] = list(s)
    return st


def dec_trace(ct, key):
    rk = round_keys(key)[::-1]; nr = len(rk) - 1; st = {}; s = list(ct)
    for r in range(0, nr + 1):
        s = xor(s, rk[r]); st[(r, 0)] = list(s)
        if 0 < r < nr: s = inv_mix_columns(s)
        st[(r, 1)] = list(s)
        if r < nr: s = inv_shift_rows(s)
        st[(r, 2)] = list(s)
        if r < nr: s = inv_sub_bytes(s)
        st[(r, 3)] = list(s)
    return st


# ------------------------------------------------------------------------------------------------ numpy form

SBOX_V = np.array(SBOX, dtype=np.uint8)
INV_SBOX_V = np.array(INV_SBOX, dtype=np.uint8)
_SR = np.array([(4 * ((c + r) % 4)) + r for c in range(4) for r in range(4)])
_ISR = np.array([(4 * ((c - r) % 4)) + r for c in range(4) for r in range(4)])


def xtime_v(a):
    a = a.astype(np.uint16)
    return (((a << 1) ^ (((a >> 7) & 1) * 0x11B)) & 0xFF).astype(np.uint8)


def gmul_v(a, c):
    """a uint8 array times the constant c in GF(2^8)."""
    r = np.zeros_like(a)
    while c:
        if c & 1: r = r ^ a
        a = xtime_v(a); c >>= 1
    return r


def mix_column_v(cols, m=(2, 3, 1, 1)):
    """cols (..., 4) uint8 -> (..., 4)."""
    out = np.zeros_like(cols)
    for r in range(4):
        acc = np.zeros(cols.shape[:-1], dtype=np.uint8)
        for j in range(4):
            acc = acc ^ gmul_v(cols[..., j], m[(j - r) % 4])
        out[..., r] = acc
    return out


def inv_mix_column_v(cols):
    return mix_column_v(cols, (14, 11, 13, 9))


def mix_columns_v(s):
    return mix_column_v(s.reshape(s.shape[:-1] + (4, 4))).reshape(s.shape)


def inv_mix_columns_v(s):
    return inv_mix_column_v(s.reshape(s.shape[:-1] + (4, 4))).reshape(s.shape)


def round_keys_v(keys):
    """keys (K, Nk*4) -> (K, Nr+1, 16) uint8."""
    keys = np.asarray(keys)
    return np.array([round_keys([int(b) for b in k]) for k in keys.reshape(-1, keys.shape[-1])], dtype=np.uint8)


def enc_trace_v(pt, rk):
    """pt (N,16) uint8, rk (N or 1, Nr+1, 16) -> dict[(round, step)] -> (N,16)."""
    nr = rk.shape[1] - 1; st = {}; s = np.array(pt, dtype=np.uint8)
    if s.shape[0] != rk.shape[0]: s = np.broadcast_to(s, (max(s.shape[0], rk.shape[0]), 16)).copy()
    for j in range(3): st[(0, j)] = s.copy()
    s = s ^ rk[:, 0]; st[(0, 3)] = s.copy()
    for r in range(1, nr + 1):
        s = SBOX_V[s]; st[(r, 0)] = s.copy()
        s = s[:, _SR]; st[(r, 1)] = s.copy()
        if r < nr: s = mix_columns_v(s)
        st[(r, 2)] = s.copy()
        s = s ^ rk[:, r]; st[(r, 3)] = s.copy()
    return st


def dec_trace_v(ct, rk):
    rk = rk[:, ::-1]; nr = rk.shape[1] - 1; st = {}; s = np.array(ct, dtype=np.uint8)
    if s.shape[0] != rk.shape[0]: s = np.broadcast_to(s, (max(s.shape[0], rk.shape[0]), 16)).copy()
    for r in range(0, nr + 1):
        s = s ^ rk[:, r]; st[(r, 0)] = s.copy()
        if 0 < r < nr: s = inv_mix_columns_v(s)
        st[(r, 1)] = s.copy()
        if r < nr: s = s[:, _ISR]
        st[(r, 2)] = s.copy()
        if r < nr: s = INV_SBOX_V[s]
        st[(r, 3)] = s.copy()
    return st


_TESTED = False


def selftest():
    global _TESTED
    if _TESTED: return True
    h = bytes.fromhex
    vec = [('000102030405060708090a0b0c0d0e0f', '69c4e0d86a7b0430d8cdb78070b4c55a'),
           ('000102030405060708090a0b0c0d0e0f1011121314151617', 'dda97ca4864cdfe06eaf70a0ec0d7191'),
           ('000102030405060708090a0b0c0d0e0f101112131415161718191a1b1c1d1e1f', '8ea2b7ca516745bfeafc49904b496089')]
    pt = list(h('00112233445566778899aabbccddeeff'))
    for k, c in vec:
        k = list(h(k)); nr = len(k) // 4 + 6
        assert bytes(enc_trace(pt, k)[(nr, 3)]).hex() == c
        assert dec_trace(list(h(c)), k)[(nr, 3)] == pt
    # FIPS-197 A.1 key expansion spot values
    w = expand(list(h('2b7e151628aed2a6abf7158809cf4f3c')))
    assert bytes(w[4]).hex() == 'a0fafe17' and bytes(w[43]).hex() == 'b6630ca6'
    w = expand(list(h('603deb1015ca71be2b73aef0857d77811f352c073b6108d72d9810a30914dff4')))
    assert bytes(w[8]).hex() == '9ba35411' and bytes(w[59]).hex() == '706c631e'
    assert SBOX[0] == 0x63 and SBOX[0x53] == 0xed and mix_column([0xdb, 0x13, 0x53, 0x45]) == [0x8e, 0x4d, 0xa1, 0xbc]
    rng = np.random.RandomState(2024)
    try:
        from Crypto.Cipher import AES as CA
    except Exception:
        CA = None
    for nk in (16, 24, 32):
        ks = rng.randint(0, 256, (6, nk)).astype(np.uint8); ps = rng.randint(0, 256, (6, 16)).astype(np.uint8)
        rk = round_keys_v(ks); et = enc_trace_v(ps, rk); nr = nk // 4 + 6
        dt = dec_trace_v(et[(nr, 3)], rk)
        for i in range(6):
            e = enc_trace(ps[i].tolist(), ks[i].tolist())
            d = dec_trace(e[(nr, 3)], ks[i].tolist())
            for slot in e:
                assert et[slot][i].tolist() == e[slot], ('enc', nk, slot)
                assert dt[slot][i].tolist() == d[slot], ('dec', nk, slot)
            if CA is not None:
                assert CA.new(bytes(ks[i].tolist()), CA.MODE_ECB).encrypt(bytes(ps[i].tolist())) == bytes(e[(nr, 3)])
    _TESTED = True
    return True
