"""Definitional references in exact rational arithmetic for SMALL inputs (history explorer systems: a handful of rows,
samples and words).  Every input number (int or float) is converted exactly (Fraction(float) is exact); the statistic
is evaluated in Fractions up to the last irrational step (sqrt / log / pinv), which is done once in float64.

All functions take X (n, S) traces and Y (n, W) intermediate values and return (ref, defined) float64/bool arrays in
scared's layout (W, S) unless stated otherwise.  `None` inside means undefined (must be NaN in the implementation).
"""
from fractions import Fraction as F
import math
import numpy as np

from . import stats as _stats
from . import mia as _mia


def _fr(v):
    if isinstance(v, (np.floating, float)):
        return F(float(v))
    return F(int(v))


def _cols(A):
    A = np.asarray(A)
    return [[_fr(v) for v in A[:, j]] for j in range(A.shape[1])]


def _finish(tab, W, S):
    ref = np.full((W, S), np.nan); de = np.zeros((W, S), bool)
    for w in range(W):
        for s in range(S):
            if tab[w][s] is not None:
                ref[w, s] = float(tab[w][s]); de[w, s] = True
    return ref, de


AMP = {}     # id-free side channel: the amplification table of the most recent call of each reference (W, S) float64


def _amp(name, tab):
    AMP[name] = np.array([[float('inf') if a is None else float(a) for a in row] for row in tab], dtype='float64')


def pearson(X, Y):
    """Also records AMP['pearson']: cancellation amplification of the two variance-like denominators."""
    xs = _cols(X); ys = _cols(Y); n = len(xs[0]) if xs else 0
    tab = []; amp = []
    for y in ys:
        row = []; arow = []
        for x in xs:
            sx, sy = sum(x), sum(y)
            cxy = n * sum(a * b for a, b in zip(x, y)) - sx * sy
            qx = n * sum(a * a for a in x); qy = n * sum(b * b for b in y)
            vx = qx - sx * sx
            vy = qy - sy * sy
            if vx <= 0 or vy <= 0:
                row.append(None); arow.append(None)
            else:
                row.append(float(cxy) / math.sqrt(float(vx * vy))); arow.append(max(qx / vx, qy / vy))
        tab.append(row); amp.append(arow)
    _amp('pearson', amp)
    return _finish(tab, len(ys), len(xs))


def dpa(X, B):
    xs = _cols(X); bs = _cols(B)
    tab = []
    for b in bs:
        row = []
        for x in xs:
            one = [a for a, v in zip(x, b) if v == 1]; zero = [a for a, v in zip(x, b) if v == 0]
            row.append(None if not one or not zero else sum(one) / len(one) - sum(zero) / len(zero))
        tab.append(row)
    return _finish(tab, len(bs), len(xs))


def partitioned(X, Y, classes, which):
    xs = _cols(X); Yc = np.asarray(Y)
    j = ('anova', 'nicv', 'snr').index(which)
    tab = []; amp = []
    for w in range(Yc.shape[1]):
        row = []; arow = []
        for x in xs:
            g = _stats.partition_stats(x, Yc[:, w], classes)
            val = _stats.anova_nicv_snr_from_groups(g)[j] if g else None
            row.append(val)
            a = None
            if val is not None:
                n = sum(v[0] for v in g.values())
                if which == 'anova':
                    ssw = sum(v[2] - v[1] * v[1] / v[0] for v in g.values()); a = sum(v[2] for v in g.values()) / ssw
                elif which == 'nicv':
                    q = sum(v[2] for v in g.values()) / n; m = sum(v[1] for v in g.values()) / n; a = q / (q - m * m)
                else:
                    den = sum(v[2] / v[0] - (v[1] / v[0]) ** 2 for v in g.values()); a = sum(v[2] / v[0] for v in g.values()) / den
            arow.append(a)
        tab.append(row); amp.append(arow)
    _amp(which, amp)
    return _finish(tab, Yc.shape[1], len(xs))


def mia(X, Y, edges, classes):
    X = np.asarray(X); Y = np.asarray(Y)
    tab = [[_mia.mi_scalar([_fr(v) for v in X[:, s]], Y[:, w], edges, classes) for s in range(X.shape[1])] for w in range(Y.shape[1])]
    return _finish(tab, Y.shape[1], X.shape[1])


def mean_var(X):
    """Population mean / variance per sample: (mean (S,), var (S,)) as float64."""
    xs = _cols(X); n = len(xs[0])
    m = [sum(x) / n for x in xs]
    v = [sum(a * a for a in x) / n - mm * mm for x, mm in zip(xs, m)]
    AMP['var'] = np.array([float('inf') if vv == 0 else float(sum(a * a for a in x) / n / vv) for x, vv in zip(xs, v)])
    return np.array([float(a) for a in m]), np.array([float(a) for a in v])


def welch(A, B):
    """(ref (S,), defined (S,)) Welch t with population variances."""
    a = _cols(A); b = _cols(B); n1 = len(a[0]); n2 = len(b[0])
    ref = np.full(len(a), np.nan); de = np.zeros(len(a), bool)
    for s, (x, y) in enumerate(zip(a, b)):
        m1 = sum(x) / n1; m2 = sum(y) / n2
        v1 = sum(t * t for t in x) / n1 - m1 * m1; v2 = sum(t * t for t in y) / n2 - m2 * m2
        den = v1 / n1 + v2 / n2
        if den > 0:
            ref[s] = float(m1 - m2) / math.sqrt(float(den)); de[s] = True
    return ref, de


def templates(X, v, classes):
    """Template building reference.  X (n, L), v (n,) class values, classes: declared class list (order = row order).
    -> (templates (K, L) float64, pooled covariance (L, L) float64, ok) ; ok False when some declared class has exactly
    one building trace (the unbiased covariance of the statement is undefined there; the code substitutes a count of 2).
    A declared class with NO building trace contributes nothing and still counts in the divisor (number of declared classes)."""
    X = np.asarray(X); v = np.asarray(v).reshape(-1)
    L = X.shape[1]; K = len(classes)
    T = [[F(0)] * L for _ in range(K)]
    P = [[F(0)] * L for _ in range(L)]
    ok = True
    worst = 1.0
    for i, c in enumerate(classes):
        rows = [[_fr(t) for t in X[r]] for r in range(X.shape[0]) if int(v[r]) == int(c)]
        n = len(rows)
        if n == 0:
            continue        # a declared class without building traces adds nothing to the sum and still counts in the divisor K ("average over declared classes")
        if n < 2:
            ok = False
            T[i] = rows[0]
            continue
        mu = [sum(r[a] for r in rows) / n for a in range(L)]
        T[i] = mu
        for a in range(L):
            ss = sum((r[a] - mu[a]) ** 2 for r in rows)
            worst = max(worst, float('inf') if ss == 0 else float(sum(r[a] ** 2 for r in rows) / ss))
        for a in range(L):
            for b in range(L):
                P[a][b] += sum((r[a] - mu[a]) * (r[b] - mu[b]) for r in rows) / (n - 1)
    Pf = np.array([[float(P[a][b] / K) for b in range(L)] for a in range(L)])
    Tf = np.array([[float(t) for t in row] for row in T])
    AMP['templates'] = worst
    return Tf, Pf, ok


def template_scores(Xm, T, P, picks):
    """Mahalanobis matching scores.  Xm (n, L) matched traces; T (K, L) templates; P pooled covariance (float64);
    picks: list over candidates of a length-n list of template rows (static attack: [c]*n; DPA: row of the class whose
    value is the hypothesis).  -> scores (n_candidates,) = 10 - mean over traces and samples of d' pinv(P) d."""
    Xm = np.asarray(Xm, dtype='float64'); n, L = Xm.shape
    Pi = np.linalg.pinv(np.asarray(P, dtype='float64'))
    out = []
    for pk in picks:
        tot = 0.0
        for r in range(n):
            d = Xm[r] - T[pk[r]]
            tot += float(d @ Pi @ d)
        out.append(10.0 - tot / (n * L))
    return np.array(out)


def selftest():
    rng = np.random.RandomState(7)
    X = rng.randint(0, 9, (6, 3)); Y = rng.randint(0, 4, (6, 2))
    r1, d1 = pearson(X, Y); r2, d2 = _stats.pearson_ref(X, Y)
    assert (d1 == d2).all() and np.allclose(r1[d1], r2[d2], rtol=0, atol=1e-12)
    r1, d1 = dpa(X, Y & 1); r2, d2 = _stats.dpa_ref(X, Y & 1)
    assert (d1 == d2).all() and np.allclose(r1[d1], r2[d2], rtol=0, atol=1e-12)
    for which in ('anova', 'nicv', 'snr'):
        r1, d1 = partitioned(X, Y, [0, 1, 2, 3], which); r2, d2 = _stats.partitioned_ref_matrix(X, Y, [0, 1, 2, 3], which)
        assert (d1 == d2).all() and np.allclose(r1[d1], r2[d2], rtol=1e-12, atol=1e-12), which
    A = rng.randint(0, 9, (5, 3)); B = rng.randint(0, 9, (4, 3))
    r1, d1 = welch(A, B); r2, d2 = _stats.welch_ref(A, B)
    assert (d1 == d2).all() and np.allclose(r1[d1], r2[d2], rtol=1e-12, atol=1e-12)
    m, v = mean_var(A.astype('float64') / 8)
    assert np.allclose(m, (A / 8).mean(0)) and np.allclose(v, (A / 8).var(0))
    Xb = rng.randint(0, 8, (9, 2)).astype('float64'); vb = np.array([0, 0, 1, 1, 1, 5, 5, 5, 5])
    T, P, ok = templates(Xb, vb, [5, 0, 1])
    assert ok
    Tn = np.array([Xb[vb == c].mean(0) for c in (5, 0, 1)]); Pn = sum(np.cov(Xb[vb == c].T, ddof=1) for c in (5, 0, 1)) / 3
    assert np.allclose(T, Tn) and np.allclose(P, Pn)
    sc = template_scores(Xb[:3], T, P, [[0] * 3, [1] * 3])
    Pi = np.linalg.pinv(Pn)
    e = [10 - np.mean([(x - Tn[c]) @ Pi @ (x - Tn[c]) for x in Xb[:3]]) / 2 for c in (0, 1)]
    assert np.allclose(sc, e)
    return True
