"""Bit-list DES / TDES reference transcribed from FIPS 46-3 (tables in the standard's own layout)."""
IP = [58,50,42,34,26,18,10,2, 60,52,44,36,28,20,12,4, 62,54,46,38,30,22,14,6, 64,56,48,40,32,24,16,8,
      57,49,41,33,25,17,9,1, 59,51,43,35,27,19,11,3, 61,53,45,37,29,21,13,5, 63,55,47,39,31,23,15,7]
FP = [40,8,48,16,56,24,64,32, 39,7,47,15,55,23,63,31, 38,6,46,14,54,22,62,30, 37,5,45,13,53,21,61,29,
      36,4,44,12,52,20,60,28, 35,3,43,11,51,19,59,27, 34,2,42,10,50,18,58,26, 33,1,41,9,49,17,57,25]
E = [32,1,2,3,4,5, 4,5,6,7,8,9, 8,9,10,11,12,13, 12,13,14,15,16,17, 16,17,18,19,20,21, 20,21,22,23,24,25,
     24,25,26,27,28,29, 28,29,30,31,32,1]
P = [16,7,20,21, 29,12,28,17, 1,15,23,26, 5,18,31,10, 2,8,24,14, 32,27,3,9, 19,13,30,6, 22,11,4,25]
PC1 = [57,49,41,33,25,17,9, 1,58,50,42,34,26,18, 10,2,59,51,43,35,27, 19,11,3,60,52,44,36,
       63,55,47,39,31,23,15, 7,62,54,46,38,30,22, 14,6,61,53,45,37,29, 21,13,5,28,20,12,4]
PC2 = [14,17,11,24,1,5, 3,28,15,6,21,10, 23,19,12,4,26,8, 16,7,27,20,13,2,
       41,52,31,37,47,55, 30,40,51,45,33,48, 44,49,39,56,34,53, 46,42,50,36,29,32]
SHIFTS = [1,1,2,2,2,2,2,2,1,2,2,2,2,2,2,1]
S = [
 [[14,4,13,1,2,15,11,8,3,10,6,12,5,9,0,7],[0,15,7,4,14,2,13,1,10,6,12,11,9,5,3,8],[4,1,14,8,13,6,2,11,15,12,9,7,3,10,5,0],[15,12,8,2,4,9,1,7,5,11,3,14,10,0,6,13]],
 [[15,1,8,14,6,11,3,4,9,7,2,13,12,0,5,10],[3,13,4,7,15,2,8,14,12,0,1,10,6,9,11,5],[0,14,7,11,10,4,13,1,5,8,12,6,9,3,2,15],[13,8,10,1,3,15,4,2,11,6,7,12,0,5,14,9]],
 [[10,0,9,14,6,3,15,5,1,13,12,7,11,4,2,8],[13,7,0,9,3,4,6,10,2,8,5,14,12,11,15,1],[13,6,4,9,8,15,3,0,11,1,2,12,5,10,14,7],[1,10,13,0,6,9,8,7,4,15,14,3,11,5,2,12]],
 [[7,13,14,3,0,6,9,10,1,2,8,5,11,12,4,15],[13,8,11,5,6,15,0,3,4,7,2,12,1,10,14,9],[10,6,9,0,12,11,7,13,15,1,3,14,5,2,8,4],[3,15,0,6,10,1,13,8,9,4,5,11,12,7,2,14]],
 [[2,12,4,1,7,10,11,6,8,5,3,15,13,0,14,9],[14,11,2,12,4,7,13,1,5,0,15,10,3,9,8,6],[4,2,1,11,10,13,7,8,15,9,12,5,6,3,0,14],[11,8,12,7,1,14,2,13,6,15,0,9,10,4,5,3]],
 [[12,1,10,15,9,2,6,8,0,13,3,4,14,7,5,11],[10,15,4,2,7,12,9,5,6,1,13,14,0,11,3,8],[9,14,15,5,2,8,12,3,7,0,4,10,1,13,11,6],[4,3,2,12,9,5,15,10,11,14,1,7,6,0,8,13]],
 [[4,11,2,14,15,0,8,13,3,12,9,7,5,10,6,1],[13,0,11,7,4,9,1,10,14,3,5,12,2,15,8,6],[1,4,11,13,12,3,7,14,10,15,6,8,0,5,9,2],[6,11,13,8,1,4,10,7,9,5,0,15,14,2,3,12]],
 [[13,2,8,4,6,15,11,1,10,9,3,14,5,0,12,7],[1,15,13,8,10,3,7,4,12,5,6,11,0,14,9,2],[7,11,4,1,9,12,14,2,0,6,10,13,15,3,5,8],[2,1,14,7,4,10,8,13,15,12,9,0,3,5,6,11]],
]
def bits(bs, width=8):
    return [(b >> (width-1-i)) & 1 for b in bs for i in range(width)]
def pack(bl, width=8):
    return [int(''.join(map(str, bl[i:i+width])), 2) for i in range(0, len(bl), width)]
def perm(bl, table): return [bl[t-1] for t in table]
def inv_table(table, n):
    inv=[0]*n
    for i,t in enumerate(table): inv[t-1]=i+1
    return inv
INVP = inv_table(P, 32)
def sbox(j, six):
    row = (six>>5 &1)*2 + (six & 1); col = (six>>1) & 0xF
    return S[j][row][col]
def key_schedule(key8):
    """-> 16 round keys, each a list of 8 six-bit words."""
    cd = perm(bits(key8), PC1); c, d = cd[:28], cd[28:]
    out=[]
    for r in range(16):
        c = c[SHIFTS[r]:]+c[:SHIFTS[r]]; d = d[SHIFTS[r]:]+d[:SHIFTS[r]]
        out.append(pack(perm(c+d, PC2), 6))
    return out
def des_trace(block8, round_keys, first_pass=True, last_pass=True, pre=None):
    """States of one DES pass in scared's slot layout: dict[(round, step)] -> list of ints.
    `pre` = 64-bit LR state handed over by a previous pass (R16L16 of it)."""
    st={}
    if first_pass: lr = perm(bits(block8), IP)
    else: lr = pre
    L, R = lr[:32], lr[32:]
    cur = pack(L+R)
    for r in range(16):
        st[(r,0)] = list(cur)                       # after IP (round 0 of first pass) / unchanged otherwise
        e = pack(perm(R, E), 6); st[(r,1)] = e
        k = [a ^ b for a,b in zip(e, round_keys[r])]; st[(r,2)] = k
        s = [sbox(j, k[j]) for j in range(8)]; st[(r,3)] = s
        pf = perm(bits(s, 4), P); st[(r,4)] = pack(pf) + [0,0,0,0]
        newR = [a ^ b for a,b in zip(L, pf)]
        st[(r,5)] = pack(newR) + pack(R)            # (new right, new left)
        st[(r,6)] = pack(R) + pack(newR)            # swapped: (L_new, R_new) -- always performed when asked
        st[(r,7)] = pack(perm(newR, INVP), 4)       # inv P of new R
        st[(r,8)] = pack(perm([a ^ b for a,b in zip(newR, R)], INVP), 4)
        if r < 15:
            st[(r,9)] = pack(R) + pack(newR)        # whole round done, halves swapped
            L, R = R, newR; cur = pack(L+R)
        else:
            pre_out = newR + R                      # R16 L16
            st[(r,9)] = pack(perm(pre_out, FP)) if last_pass else pack(pre_out)
            handover = pre_out
    return st, handover
def encrypt_block(block8, key8, decrypt=False):
    rk = key_schedule(key8)
    if decrypt: rk = rk[::-1]
    st,_ = des_trace(block8, rk); return st[(15,9)]


def tdes_trace(block8, keys3, decrypt, at_des):
    """keys3: three lists of 16 round keys (K1, K2, K3 schedules).  EDE: encrypt = E_K3(D_K2(E_K1(x))), decrypt = D_K1(E_K2(D_K3(x))).
    Intermediate passes hand over R16L16 without FP/IP (scared's documented behaviour); the pass `at_des` is the last one.
    -> dict[(des, round, step)]."""
    order = [keys3[0], keys3[1], keys3[2]] if not decrypt else [keys3[2], keys3[1], keys3[0]]
    flips = [False, True, False] if not decrypt else [True, False, True]
    out = {}; pre = None
    for d in range(at_des + 1):
        rk = order[d][::-1] if flips[d] else order[d]
        st, pre = des_trace(block8, rk, first_pass=(d == 0), last_pass=(d == at_des), pre=pre)
        for (r, s), v in st.items(): out[(d, r, s)] = v
    return out


def tdes_block(block8, keys3, decrypt=False):
    return tdes_trace(block8, keys3, decrypt, 2)[(2, 15, 9)]


_TESTED = False


def selftest():
    global _TESTED
    if _TESTED: return True
    h = bytes.fromhex
    assert bytes(encrypt_block(list(h('0123456789ABCDEF')), list(h('133457799BBCDFF1')))).hex() == '85e813540f0ab405'
    assert bytes(encrypt_block(list(h('85e813540f0ab405')), list(h('133457799BBCDFF1')), decrypt=True)).hex() == '0123456789abcdef'
    # the worked example's first round key K1 = 000110 110000 001011 101111 111111 000111 000001 110010
    assert key_schedule(list(h('133457799BBCDFF1')))[0] == [0b000110, 0b110000, 0b001011, 0b101111, 0b111111, 0b000111, 0b000001, 0b110010]
    assert perm(perm(list(range(64)), IP), FP) == list(range(64)) and perm(perm(list(range(32)), P), INVP) == list(range(32))
    import random
    rnd = random.Random(77)
    try:
        from Crypto.Cipher import DES as CD, DES3
    except Exception:
        CD = DES3 = None
    for t in range(40):
        k = [rnd.randrange(256) for _ in range(24)]; p = [rnd.randrange(256) for _ in range(8)]
        c = encrypt_block(p, k[:8])
        assert encrypt_block(c, k[:8], decrypt=True) == p
        ks = [key_schedule(k[0:8]), key_schedule(k[8:16]), key_schedule(k[16:24])]
        c3 = tdes_block(p, ks); assert tdes_block(c3, ks, decrypt=True) == p
        same = [ks[0], ks[0], ks[0]]; assert tdes_block(p, same) == c
        if CD is not None:
            assert CD.new(bytes(k[:8]), CD.MODE_ECB).encrypt(bytes(p)) == bytes(c)
            try:
                assert DES3.new(bytes(k), DES3.MODE_ECB).encrypt(bytes(p)) == bytes(c3)
                k2 = k[:16]; assert DES3.new(bytes(k2), DES3.MODE_ECB).encrypt(bytes(p)) == bytes(tdes_block(p, [ks[0], ks[1], ks[0]]))
            except ValueError:
                pass          # pycryptodome refuses degenerate TDES keys
    _TESTED = True
    return True
