"""Self-validation of the reference models (run by setup and at the start of the checks that use them)."""
import importlib, sys
ok = True
for name in ('stats', 'aes', 'des', 'mia', 'frac', 'signal', 'preproc'):
    try:
        m = importlib.import_module('mc.refs.' + name)
    except ModuleNotFoundError:
        continue
    try:
        m.selftest(); print('reference', name, 'ok')
    except Exception as e:
        ok = False; print('reference', name, 'FAILED', repr(e))
sys.exit(0 if ok else 2)
